"""Plain-Python oracle relations (from docs/source/reference.rst), used by the bounded stand-ins. Independent of the code under test."""


def rel_and(t, p):
    return (all(x == 1 for x in t[:-1])) == (t[-1] == 1)


def rel_affine_eq(t, p):
    return sum(a * x for a, x in zip(p[:-1], t)) == p[-1]


def rel_affine_geq(t, p):
    return sum(a * x for a, x in zip(p[:-1], t)) >= p[-1]


def rel_affine_leq(t, p):
    return sum(a * x for a, x in zip(p[:-1], t)) <= p[-1]


def rel_alldifferent(t, p):
    return len(set(t)) == len(t)


def rel_count_eq(t, p):
    return sum(1 for x in t[:-1] if x == p[0]) == t[-1]


def rel_dummy(t, p):
    return True


def rel_element_iv(t, p):
    return 0 <= t[0] < len(p) and p[t[0]] == t[1]


def rel_element_lic(t, p):
    return 0 <= t[-1] < len(t) - 1 and t[t[-1]] == p[0]


def rel_element_liv(t, p):
    return 0 <= t[-2] < len(t) - 2 and t[t[-2]] == t[-1]


def rel_exactly_eq(t, p):
    return sum(1 for x in t if x == p[0]) == p[1]


def rel_exactly_true(t, p):
    return sum(1 for x in t if x == 1) == p[0]


def rel_gcc(t, p):
    # parameters: first value, then m lower capacities, then m upper capacities
    m = (len(p) - 1) // 2
    v0 = p[0]
    for j in range(m):
        c = sum(1 for x in t if x == v0 + j)
        if not (p[1 + j] <= c <= p[1 + m + j]):
            return False
    return all(v0 <= x < v0 + m for x in t)


def rel_lexicographic_leq(t, p):
    n = len(t) // 2
    return tuple(t[:n]) <= tuple(t[n:])


def rel_max_eq(t, p):
    return max(t[:-1]) == t[-1]


def rel_max_leq(t, p):
    return max(t[:-1]) <= t[-1]


def rel_min_eq(t, p):
    return min(t[:-1]) == t[-1]


def rel_min_geq(t, p):
    return min(t[:-1]) >= t[-1]


def rel_relation(t, p):
    n = len(t)
    return any(tuple(p[i:i + n]) == tuple(t) for i in range(0, len(p), n))


def _cycle_len(t, start):
    seen = 0
    j = start
    while True:
        j = t[j]
        seen += 1
        if j == start or seen > len(t):
            return seen


def rel_no_sub_cycle(t, p):
    """on successor maps with values in [0,n): no cycle of length < n (decisive on permutations, as documented)"""
    n = len(t)
    for s in range(n):
        # follow from s; a cycle through s of length < n is a sub-cycle
        j, k = s, 0
        while k <= n:
            j = t[j]
            k += 1
            if j == s:
                break
        if j == s and k < n:
            return False
    return True


def rel_scc(t, p):
    """the successor graph i -> t[i] is strongly connected (with one out-arc per node: a single cycle through all nodes)"""
    n = len(t)
    if any(not (0 <= x < n) for x in t):
        return False
    for s0 in range(n):
        seen = set()
        j = s0
        for _ in range(n):
            j = t[j]
            seen.add(j)
        if len(seen) != n:
            return False
    return True


RELATIONS = {k[4:]: v for k, v in dict(globals()).items() if k.startswith("rel_")}
EXACT = {"and", "affine_geq", "affine_leq", "alldifferent", "count_eq", "element_iv", "element_lic", "element_liv", "exactly_eq", "exactly_true", "gcc",
         "lexicographic_leq", "max_eq", "max_leq", "min_eq", "min_geq", "relation"}
ENTAILING = {"affine_geq", "affine_leq", "count_eq", "element_iv", "element_lic", "element_liv", "exactly_eq", "exactly_true", "lexicographic_leq", "max_leq", "min_geq", "relation"}
