# element propagators in invariant mode (unbounded arity); replaces the arity-bounded contracts of prop_unroll.py
from nucsvc.propspec import propagator

I32 = "forall(k, 0, n, -2147483648 <= domains[k, MIN] and domains[k, MAX] <= 2147483647)"

# ---------------------------------------------------------------- element_lic: l = domains[:-1], i = domains[-1], c = parameters[0]
N = "(n - 1)"
C = "parameters[0]"
define("nointC(D, j, c)", "c < D[j, MIN] or c > D[j, MAX]")
LO0 = f"pre(domains)[{N}, MIN]"
HI0 = f"pre(domains)[{N}, MAX]"
ROWS_SAME = ("P1.rows", f"forall(j, 0, {N}, domains[j, MIN] == old(domains)[j, MIN] and domains[j, MAX] == old(domains)[j, MAX])")
# P5 (exact hull) for element_lic: a bound of i: (that index, l_index = c, the other l at their minimum); a bound of l_k: i at a supported end of its
# output range other than k (k itself only when i is fixed to k, and then l_k = c), that l at c, l_k at the bound, the others at their minimum
NIL = "result != PROP_INCONSISTENCY"
GOODL = f"inbox(W, domains, n) and inbox(W, old(domains), n) and @R(W)"
WI = lambda b: f"arr(j, n, ite(j == {N}, domains[{N}, {b}], ite(j == domains[{N}, {b}], {C}, domains[j, MIN])))"
JSEL = f"ite(domains[{N}, MIN] != k, domains[{N}, MIN], domains[{N}, MAX])"
WL = lambda b: f"arr(j, n, ite(j == {N}, {JSEL}, ite(j == {JSEL}, {C}, ite(j == k, domains[k, {b}], domains[j, MIN]))))"
P5_LIC = [(f"P5.i_{b.lower()}", f"implies({NIL}, let(W, {WI(b)}, {GOODL} and W[{N}] == domains[{N}, {b}]))") for b in ("MIN", "MAX")] + \
         [(f"P5.l_{b.lower()}", f"implies({NIL}, forall(k, 0, {N}, let(W, {WL(b)}, {GOODL} and W[k] == domains[k, {b}])))") for b in ("MIN", "MAX")]
propagator(REG, "nucs/propagators/element_lic_propagator.py::compute_domains_element_lic", p5=P5_LIC,
    rel=f"exists(k, 0, n - 1, @T[n - 1] == k and @T[k] == {C})", n_min=2, requires=["m == 1", I32],
    ghost_init={"rank": "@rank0"}, ghost={"rank0": "int[n]"}, ghost_modifies=["rank0"],
    loops={
        1: dict(index="k", fingerprint="for range(i[MIN], i[MAX] + 1)", also_modifies=["rank"],
                ghost_updates={"rank": "arr(j, n, ite(j == idx and len(indices) != it0(len(indices)), it0(len(indices)), it0(rank)[j]))"}, invariant=[
            ROWS_SAME,
            ("P1.imax", f"domains[{N}, MAX] == {HI0} and 0 <= {LO0} and {HI0} <= {N} - 1 and old(domains)[{N}, MIN] <= {LO0} and {HI0} <= old(domains)[{N}, MAX]"),
            ("P2.imin", f"{LO0} <= domains[{N}, MIN] and domains[{N}, MIN] <= {LO0} + k"),
            ("P2.skipped", f"forall(j, {LO0}, domains[{N}, MIN], nointC(old(domains), j, {C}))"),
            ("P1.stop", f"implies(domains[{N}, MIN] < {LO0} + k, not (nointC(old(domains), domains[{N}, MIN], {C})))"),
            ("P2.list", f"forall(q, 0, len(indices), {LO0} <= indices[q] and indices[q] < {LO0} + k and nointC(old(domains), indices[q], {C}))"),
            ("P5.sorted", "forall(a, 0, len(indices), forall(b, a + 1, len(indices), indices[a] > indices[b]))"),
            ("P5.complete", f"forall(j, {LO0}, {LO0} + k, implies(nointC(old(domains), j, {C}), 0 <= rank[j] and rank[j] < len(indices) and indices[len(indices) - 1 - rank[j]] == j))"),
        ]),
        2: dict(index="q", fingerprint="for indices", invariant=[
            ROWS_SAME,
            ("P1.imin", f"domains[{N}, MIN] == pre(domains)[{N}, MIN]"),
            ("P2.imax", f"domains[{N}, MAX] == {HI0} - q"),
            ("P5.prefix", f"forall(r, 0, q, indices[r] == {HI0} - r)"),
            ("P2.dropped", f"forall(j, domains[{N}, MAX] + 1, {HI0} + 1, nointC(old(domains), j, {C}))"),
            ("P1.above", f"implies(domains[{N}, MIN] <= {HI0} and not (nointC(old(domains), domains[{N}, MIN], {C})), domains[{N}, MAX] >= domains[{N}, MIN])"),
        ]),
    },
    arities=[{"n": a, "m": 1} for a in (2, 3, 4)])

# ---------------------------------------------------------------- element_liv: l = domains[:-2], i = domains[-2], v = domains[-1]
M2 = "(n - 2)"
IROW, VROW = "(n - 2)", "(n - 1)"
define("nointV(D, j, vr)", "D[vr, MAX] < D[j, MIN] or D[vr, MIN] > D[j, MAX]")
LO2 = f"pre(domains)[{IROW}, MIN]"
HI2 = f"pre(domains)[{IROW}, MAX]"
OD = "old(domains)"
NOI = lambda j: f"nointV({OD}, {j}, {VROW})"
ROWS2 = ("P1.rows", f"forall(j, 0, n, implies(j != {IROW}, domains[j, MIN] == {OD}[j, MIN] and domains[j, MAX] == {OD}[j, MAX]))")
BIG = "9223372036854775807"
propagator(REG, "nucs/propagators/element_liv_propagator.py::compute_domains_element_liv",
    rel="exists(k, 0, n - 2, @T[n - 2] == k and @T[k] == @T[n - 1])", n_min=3, requires=["m == 0", I32],
    ghost_init={"jmin": 0, "jmax": 0},
    loops={
        1: dict(index="k", fingerprint="for range(i[MIN], i[MAX] + 1)", also_modifies=["jmin", "jmax"],
                ghost_updates={"jmin": "ite(v_min != it0(v_min), idx, jmin)", "jmax": "ite(v_max != it0(v_max), idx, jmax)"},
                invariant=[
            ROWS2,
            ("P1.imax", f"domains[{IROW}, MAX] == {HI2} and 0 <= {LO2} and {HI2} <= {M2} - 1 and {OD}[{IROW}, MIN] <= {LO2} and {HI2} <= {OD}[{IROW}, MAX]"),
            ("P2.imin", f"{LO2} <= domains[{IROW}, MIN] and domains[{IROW}, MIN] <= {LO2} + k"),
            ("P2.skipped", f"forall(j, {LO2}, domains[{IROW}, MIN], {NOI('j')})"),
            ("P1.stop", f"implies(domains[{IROW}, MIN] < {LO2} + k, not ({NOI(f'domains[{IROW}, MIN]')}))"),
            ("P2.list", f"forall(q, 0, len(indices), {LO2} <= indices[q] and indices[q] < {LO2} + k and {NOI('indices[q]')})"),
            ("P2.vrange", f"forall(j, {LO2}, {LO2} + k, implies(not ({NOI('j')}), v_min <= {OD}[j, MIN] and v_max >= {OD}[j, MAX]))"),
            ("P1.vmin_attained", f"(v_min == {BIG} and forall(j, {LO2}, {LO2} + k, {NOI('j')})) or ({LO2} <= jmin and jmin < {LO2} + k and not ({NOI('jmin')}) and v_min == {OD}[jmin, MIN])"),
            ("P1.vmax_attained", f"(v_max == -{BIG} and forall(j, {LO2}, {LO2} + k, {NOI('j')})) or ({LO2} <= jmax and jmax < {LO2} + k and not ({NOI('jmax')}) and v_max == {OD}[jmax, MAX])"),
        ]),
        2: dict(index="q", fingerprint="for indices", invariant=[
            ROWS2,
            ("P1.imin", f"domains[{IROW}, MIN] == pre(domains)[{IROW}, MIN]"),
            ("P2.imax", f"domains[{IROW}, MAX] == {HI2} - q"),
            ("P2.dropped", f"forall(j, domains[{IROW}, MAX] + 1, {HI2} + 1, {NOI('j')})"),
            ("P1.above", f"implies(domains[{IROW}, MIN] <= {HI2} and not ({NOI(f'domains[{IROW}, MIN]')}), domains[{IROW}, MAX] >= domains[{IROW}, MIN])"),
        ]),
    },
    arities=[{"n": a, "m": 0} for a in (3, 4)])

# ---------------------------------------------------------------- element_iv: l = parameters (m values), i = domains[0], v = domains[1]
define("nointL(D, L, j)", "D[1, MAX] < L[j] or D[1, MIN] > L[j]")
LO3, HI3 = "pre(domains)[0, MIN]", "pre(domains)[0, MAX]"
NOL = lambda j: f"nointL({OD}, parameters, {j})"
VSAME = ("P1.v", f"domains[1, MIN] == {OD}[1, MIN] and domains[1, MAX] == {OD}[1, MAX]")
# P5 (exact hull) for element_iv: the witness for a bound of i is (that index, its constant); for a bound of v it is some index of the output range
# whose constant is that bound
NI = "result != PROP_INCONSISTENCY"
GOODW = f"inbox(W, domains, n) and inbox(W, {OD}, n) and @R(W)"
P5_IV = [
    ("P5.i_min", f"implies({NI}, let(W, arr(j, 2, ite(j == 0, domains[0, MIN], parameters[domains[0, MIN]])), {GOODW}))"),
    ("P5.i_max", f"implies({NI}, let(W, arr(j, 2, ite(j == 0, domains[0, MAX], parameters[domains[0, MAX]])), {GOODW}))"),
    ("P5.v_min", f"implies({NI}, exists(jj, 0, m, let(W, arr(j, 2, ite(j == 0, jj, parameters[jj])), {GOODW} and W[1] == domains[1, MIN])))"),
    ("P5.v_max", f"implies({NI}, exists(jj, 0, m, let(W, arr(j, 2, ite(j == 0, jj, parameters[jj])), {GOODW} and W[1] == domains[1, MAX])))"),
]
propagator(REG, "nucs/propagators/element_iv_propagator.py::compute_domains_element_iv", p5=P5_IV,
    rel="exists(k, 0, m, @T[0] == k and parameters[k] == @T[1])", n_min=2,
    requires=["n == 2", "m >= 1", I32, "forall(k, 0, m, -2147483648 <= parameters[k] and parameters[k] <= 2147483647)"],
    ghost_init={"jmin": 0, "jmax": 0, "rank": "@rank0"}, ghost={"rank0": "int[m]"}, ghost_modifies=["rank0"],
    loops={
        1: dict(index="k", fingerprint="for range(i[MIN], i[MAX] + 1)", also_modifies=["jmin", "jmax", "rank"],
                ghost_updates={"jmin": "ite(v_min != it0(v_min), idx, jmin)", "jmax": "ite(v_max != it0(v_max), idx, jmax)",
                               "rank": "arr(j, m, ite(j == idx and len(indices) != it0(len(indices)), it0(len(indices)), it0(rank)[j]))"},
                invariant=[
            VSAME,
            ("P1.imax", f"domains[0, MAX] == {HI3} and 0 <= {LO3} and {HI3} <= m - 1 and {OD}[0, MIN] <= {LO3} and {HI3} <= {OD}[0, MAX]"),
            ("P2.imin", f"{LO3} <= domains[0, MIN] and domains[0, MIN] <= {LO3} + k"),
            ("P2.skipped", f"forall(j, {LO3}, domains[0, MIN], {NOL('j')})"),
            ("P1.stop", f"implies(domains[0, MIN] < {LO3} + k, not ({NOL('domains[0, MIN]')}))"),
            ("P2.list", f"forall(q, 0, len(indices), {LO3} <= indices[q] and indices[q] < {LO3} + k and {NOL('indices[q]')})"),
            ("P2.vrange", f"forall(j, {LO3}, {LO3} + k, implies(not ({NOL('j')}), v_min <= parameters[j] and v_max >= parameters[j]))"),
            ("P1.vmin_attained", f"(v_min == {BIG} and forall(j, {LO3}, {LO3} + k, {NOL('j')})) or ({LO3} <= jmin and jmin < {LO3} + k and not ({NOL('jmin')}) and v_min == parameters[jmin])"),
            ("P1.vmax_attained", f"(v_max == -{BIG} and forall(j, {LO3}, {LO3} + k, {NOL('j')})) or ({LO3} <= jmax and jmax < {LO3} + k and not ({NOL('jmax')}) and v_max == parameters[jmax])"),
            ("P5.sorted", "forall(a, 0, len(indices), forall(b, a + 1, len(indices), indices[a] > indices[b]))"),
            # rank[j] = length of the list when the unsupported index j was inserted at its front: its distance from the END never changes
            ("P5.complete", f"forall(j, {LO3}, {LO3} + k, implies({NOL('j')}, 0 <= rank[j] and rank[j] < len(indices) and indices[len(indices) - 1 - rank[j]] == j))"),
        ]),
        2: dict(index="q", fingerprint="for indices", invariant=[
            VSAME,
            ("P1.imin", "domains[0, MIN] == pre(domains)[0, MIN]"),
            ("P2.imax", f"domains[0, MAX] == {HI3} - q"),
            ("P5.prefix", f"forall(r, 0, q, indices[r] == {HI3} - r)"),
            ("P2.dropped", f"forall(j, domains[0, MAX] + 1, {HI3} + 1, {NOL('j')})"),
            ("P1.above", f"implies(domains[0, MIN] <= {HI3} and not ({NOL('domains[0, MIN]')}), domains[0, MAX] >= domains[0, MIN])"),
        ]),
    },
    arities=[{"n": 2, "m": a} for a in (1, 2, 3)])
