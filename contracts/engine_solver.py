SO = "nucs/solvers/solver.py::"
ST = {"shr_domains_stack": "i32[H,D,2]", "stacks_top": "u8[1]"}

contract(SO + "is_solved", types=ST, result="bool", props=["C01", "C02", "C16"], modifies=[],
    requires=["H >= 1", "stacks_top[0] < H"],
    ensures=[("C01.bound", "result == forall(d, 0, D, shr_domains_stack[stacks_top[0], d, MIN] == shr_domains_stack[stacks_top[0], d, MAX])")],
    tags={"C01": ["C01", "C02"]}, arities=[{"H": 2, "D": 2}])

contract(SO + "get_solution", types=dict(ST, dom_indices_arr="u16[V]", dom_offsets_arr="i32[V]"), result="i64[V]", props=["C01", "C13", "C16"], modifies=[],
    requires=["H >= 1", "stacks_top[0] < H", "forall(v, 0, V, dom_indices_arr[v] < D)"],
    ensures=[("C01.solution", "forall(v, 0, V, result[v] == shr_domains_stack[stacks_top[0], dom_indices_arr[v], MIN] + dom_offsets_arr[v])")],
    tags={"C01": ["C01", "C13"]}, arities=[{"H": 2, "D": 2, "V": 3}])

OPT_T = dict(ST, dom_indices_arr="u16[V]", dom_offsets_arr="i32[V]", var_idx="int", value="int")
for fn, bound, other, expr in (("decrease_max", "MAX", "MIN", "value - 1 - dom_offsets_arr[var_idx]"), ("increase_min", "MIN", "MAX", "value + 1 - dom_offsets_arr[var_idx]")):
    contract(SO + fn, types=OPT_T, result="bool", props=["C03", "C13", "C16", "C04"], modifies=["shr_domains_stack"],
        requires=["H >= 1", "stacks_top[0] < H", "0 <= var_idx and var_idx < V", "forall(v, 0, V, dom_indices_arr[v] < D)"],
        ensures=[
            ("C03.bound", f"shr_domains_stack[stacks_top[0], dom_indices_arr[var_idx], {bound}] + dom_offsets_arr[var_idx] == value {'- 1' if bound == 'MAX' else '+ 1'}"),
            ("C03.result", f"result == (shr_domains_stack[stacks_top[0], dom_indices_arr[var_idx], MIN] <= shr_domains_stack[stacks_top[0], dom_indices_arr[var_idx], MAX])"),
            ("C03.frame", f"forall(l, 0, H, forall(d, 0, D, implies(l != stacks_top[0] or d != dom_indices_arr[var_idx], shr_domains_stack[l, d, MIN] == old(shr_domains_stack)[l, d, MIN] and shr_domains_stack[l, d, MAX] == old(shr_domains_stack)[l, d, MAX])))"),
            ("C03.other", f"shr_domains_stack[stacks_top[0], dom_indices_arr[var_idx], {other}] == old(shr_domains_stack)[stacks_top[0], dom_indices_arr[var_idx], {other}]"),
        ],
        tags={"C03": ["C03", "C13", "C04"]}, arities=[{"H": 2, "D": 2, "V": 2}])
