# get_triggers_X (C08, P10 code-dependent part): the declared wake-up mask of every position contains the events the propagator needs
PR = "nucs/propagators/"
FULL = "has(result[i], EVENT_MASK_MIN) and has(result[i], EVENT_MASK_MAX)"
NEED = {
    "affine_leq": "implies(parameters[i] > 0, has(result[i], EVENT_MASK_MIN)) and implies(parameters[i] < 0, has(result[i], EVENT_MASK_MAX))",
    "affine_geq": "implies(parameters[i] > 0, has(result[i], EVENT_MASK_MAX)) and implies(parameters[i] < 0, has(result[i], EVENT_MASK_MIN))",
    "max_leq": "ite(i < n - 1, has(result[i], EVENT_MASK_MIN), has(result[i], EVENT_MASK_MAX))",
    "min_geq": "ite(i < n - 1, has(result[i], EVENT_MASK_MAX), has(result[i], EVENT_MASK_MIN))",
    "no_sub_cycle": "has(result[i], EVENT_MASK_GROUND)",
}
for name in ["affine_eq", "affine_geq", "affine_leq", "alldifferent", "and", "count_eq", "dummy", "element_iv", "element_lic", "element_liv", "exactly_eq", "exactly_true",
             "gcc", "lexicographic_leq", "max_eq", "max_leq", "min_eq", "min_geq", "no_sub_cycle", "relation", "scc"]:
    need = NEED.get(name, FULL)
    loops = {}
    req = ["n >= 1"]
    if name in ("affine_leq", "affine_geq"):
        req.append("m == n + 1")
        loops = {1: dict(index="k", fingerprint="for enumerate(parameters[:-1])", invariant=[
            ("C08.done", "forall(i, 0, k, " + need.replace("result", "triggers") + ")"), ("C08.range", "forall(i, 0, n, triggers[i] < 8)")])}
    contract(f"{PR}{name}_propagator.py::get_triggers_{name}", types={"n": "int", "parameters": "i32[m]"}, result="u8[R]", props=["C08", "C16"], modifies=[],
             requires=req, loops=loops,
             ensures=[("C08.length", "len(result) == n"), ("C08.need", f"forall(i, 0, n, {need})"), ("C08.mask", "forall(i, 0, n, result[i] < 8)")],
             tags={"C08": ["C08"]}, arities=[{"m": 3, "R": 2}])
