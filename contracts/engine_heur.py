from nucsvc.enginespec import *

HE = "nucs/heuristics/"
for name, k in (("min_value", 1), ("max_value", 1), ("split_low", 1)):
    contract(f"{HE}{name}_dom_heuristic.py::{name}_dom_heuristic", types=DH_TYPES, props=["C09", "C02", "C16", "C19", "C08"],
             requires=dom_heuristic_requires(k), ensures=dom_heuristic_ensures(k), modifies=DH_MODIFIES, tags=DH_TAGS,
             arities=[{"H": 3, "D": 2, "P": 1, "_pin": {"stacks_top": [0]}}, {"H": 3, "D": 2, "P": 1, "_pin": {"stacks_top": [1]}}])

contract(HE + "value_dom_heuristic.py::value_dom_heuristic", types=dict(DH_TYPES, value="int"), props=["C09", "C02", "C16", "C19", "C08"],
         requires=dom_heuristic_requires(2) + ["shr_domains_stack[stacks_top[0], dom_idx, MIN] <= value and value <= shr_domains_stack[stacks_top[0], dom_idx, MAX]"],
         ensures=dom_heuristic_ensures(2), modifies=DH_MODIFIES, tags=DH_TAGS, arities=[{"H": 4, "D": 2, "P": 1, "_pin": {"stacks_top": [0]}}, {"H": 4, "D": 2, "P": 1, "_pin": {"stacks_top": [1]}}])

contract(HE + "mid_value_dom_heuristic.py::mid_value_dom_heuristic", types=DH_TYPES, props=["C09", "C02", "C16", "C19", "C08"],
         requires=dom_heuristic_requires(2), ensures=dom_heuristic_ensures(2), modifies=DH_MODIFIES, tags=DH_TAGS, arities=[{"H": 4, "D": 2, "P": 1, "_pin": {"stacks_top": [0]}}, {"H": 4, "D": 2, "P": 1, "_pin": {"stacks_top": [1]}}])

interface("DomHeuristic", types=DH_TYPES, requires=dom_heuristic_requires(2), ensures=dom_heuristic_ensures(2), modifies=DH_MODIFIES)

for name in ("first_not_instantiated",):
    contract(f"{HE}{name}_var_heuristic.py::{name}_var_heuristic", types=VH_TYPES, props=["C02", "C04", "C16"],
             requires=VH_REQUIRES, ensures=VH_ENSURES, modifies=[], tags={"C02": ["C02", "C04"]},
             loops={1: dict(index="i", fingerprint="for decision_domains", invariant=[
                 ("C02.none", "forall(k, 0, i, shr_domains_stack[stacks_top[0], decision_domains[k], MIN] >= shr_domains_stack[stacks_top[0], decision_domains[k], MAX])")])},
             arities=[{"H": 2, "D": 3, "K": 2}])
interface("VarHeuristic", types=VH_TYPES, requires=VH_REQUIRES, ensures=VH_ENSURES, modifies=[])

OPEN = lambda d: f"(shr_domains_stack[stacks_top[0], {d}, MIN] < shr_domains_stack[stacks_top[0], {d}, MAX])"
SIZE = lambda d: f"(shr_domains_stack[stacks_top[0], {d}, MAX] - shr_domains_stack[stacks_top[0], {d}, MIN])"
I32S = "forall(d, 0, D, -2147483648 <= shr_domains_stack[stacks_top[0], d, MIN] and shr_domains_stack[stacks_top[0], d, MAX] <= 2147483647)"
CLOSED_PREFIX = "forall(k, 0, i, shr_domains_stack[stacks_top[0], decision_domains[k], MIN] >= shr_domains_stack[stacks_top[0], decision_domains[k], MAX])"

contract(HE + "smallest_domain_var_heuristic.py::smallest_domain_var_heuristic", types=VH_TYPES, props=["C02", "C04", "C16"],
         requires=VH_REQUIRES + [I32S], ensures=VH_ENSURES, modifies=[], tags={"C02": ["C02", "C04"]},
         loops={1: dict(index="i", fingerprint="for decision_domains", invariant=[
             ("C02.state", f"(min_idx == -1 and min_size == 9223372036854775807 and {CLOSED_PREFIX}) or (0 <= min_idx and min_idx < D and {OPEN('min_idx')} and exists(k, 0, i, decision_domains[k] == min_idx) and min_size == {SIZE('min_idx')})")])},
         arities=[{"H": 2, "D": 3, "K": 2}])

contract(HE + "greatest_domain_var_heuristic.py::greatest_domain_var_heuristic", types=VH_TYPES, props=["C02", "C04", "C16"],
         requires=VH_REQUIRES + [I32S], ensures=VH_ENSURES, modifies=[], tags={"C02": ["C02", "C04"]},
         loops={1: dict(index="i", fingerprint="for decision_domains", invariant=[
             ("C02.state", f"(max_idx == -1 and max_size == 0 and {CLOSED_PREFIX}) or (0 <= max_idx and max_idx < D and {OPEN('max_idx')} and exists(k, 0, i, decision_domains[k] == max_idx) and max_size == {SIZE('max_idx')})")])},
         arities=[{"H": 2, "D": 3, "K": 2}])

COSTS = dict(VH_TYPES, params="i64[D2,W]")
contract(HE + "max_regret_var_heuristic.py::max_regret_var_heuristic", types=COSTS, props=["C02", "C04", "C16"],
         requires=VH_REQUIRES + ["D2 == D", "forall(d, 0, D, 0 <= shr_domains_stack[stacks_top[0], d, MIN] and shr_domains_stack[stacks_top[0], d, MAX] < W)",
                                 "forall(d, 0, D, forall(v, 0, W, params[d, v] < 9223372036854775807))"],
         ensures=VH_ENSURES, modifies=[], tags={"C02": ["C02", "C04"]},
         loops={1: dict(index="i", fingerprint="for decision_domains", invariant=[
                    ("C02.state", f"(best_idx == -1 and max_regret == -1 and {CLOSED_PREFIX}) or (0 <= best_idx and best_idx < D and {OPEN('best_idx')} and exists(k, 0, i, decision_domains[k] == best_idx) and max_regret >= 0)")]),
                2: dict(index="j", fingerprint="for range(shr_domain[MIN], shr_domain[MAX] + 1)", invariant=[("C02.regret", "best_cost <= second_cost")])},
         arities=[{"H": 2, "D": 2, "K": 2, "D2": 2, "W": 3}])

contract(HE + "min_cost_dom_heuristic.py::min_cost_dom_heuristic", types=dict(DH_TYPES, params="i64[D2,W]"), props=["C09", "C02", "C16", "C19", "C08"],
         requires=dom_heuristic_requires(2) + ["D2 == D", "0 <= shr_domains_stack[stacks_top[0], dom_idx, MIN] and shr_domains_stack[stacks_top[0], dom_idx, MAX] < W",
                                              # costs may be non-positive (skipped by the scan, e.g. the zero diagonal of the TSP matrix): what is needed is one candidate
                                              "forall(v, 0, W, params[dom_idx, v] < 9223372036854775807)",
                                              "exists(v, shr_domains_stack[stacks_top[0], dom_idx, MIN], shr_domains_stack[stacks_top[0], dom_idx, MAX] + 1, trig(v) == v and 0 < params[dom_idx, v])"],
         ensures=dom_heuristic_ensures(2), modifies=DH_MODIFIES, tags=DH_TAGS,
         loops={1: dict(index="j", fingerprint="for range(shr_domain[MIN], shr_domain[MAX] + 1)", invariant=[
             ("C09.best", "(best_value == -1 and best_cost == 9223372036854775807 and forall(v, shr_domain[MIN], shr_domain[MIN] + j, trig(v) == v and params[dom_idx, v] <= 0)) "
                          "or (j > 0 and shr_domain[MIN] <= best_value and best_value < shr_domain[MIN] + j and 0 < best_cost and best_cost < 9223372036854775807)")])},
         arities=[{"H": 4, "D": 2, "P": 1, "D2": 2, "W": 3, "_pin": {"stacks_top": [0]}}, {"H": 4, "D": 2, "P": 1, "D2": 2, "W": 3, "_pin": {"stacks_top": [1]}}])

# the two heuristics shaving probes with: the branch taken is the single bound value (C10)
PROBE = {"min_value": "MIN", "max_value": "MAX"}
for name, b in PROBE.items():
    c = REG.contracts[f"{HE}{name}_dom_heuristic.py::{name}_dom_heuristic"]
    o = "MAX" if b == "MIN" else "MIN"
    c.ensures = c.ensures + [
        ("C10.probe", f"stacks_top[0] == old(stacks_top)[0] + 1 and shr_domains_stack[stacks_top[0], dom_idx, MIN] == old(shr_domains_stack)[old(stacks_top)[0], dom_idx, {b}] and shr_domains_stack[stacks_top[0], dom_idx, MAX] == old(shr_domains_stack)[old(stacks_top)[0], dom_idx, {b}]"),
        ("C10.alternative", f"shr_domains_stack[old(stacks_top)[0], dom_idx, {b}] == old(shr_domains_stack)[old(stacks_top)[0], dom_idx, {b}] {'+ 1' if b == 'MIN' else '- 1'} and shr_domains_stack[old(stacks_top)[0], dom_idx, {o}] == old(shr_domains_stack)[old(stacks_top)[0], dom_idx, {o}]"),
        ("C10.above", "forall(l, stacks_top[0] + 1, H, lvl_same(shr_domains_stack, old(shr_domains_stack), l, D))"),
    ]
    c.tags = dict(c.tags, C10=["C10"])
    c.props = c.props + ["C10"]
