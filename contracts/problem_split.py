# Problem.split (C12): deepcopy by assumed contract (fresh, equal, unshared); the appended sub-problems are recorded in ghost arrays
import z3
from nucsvc.values import *

assume("A-DEPS copy.deepcopy returns a fresh object equal to its argument and sharing nothing with it (Problem.split)")


def h_deepcopy(ex, st, node, args):
    src = args[0]
    return {k: (ex.materialize(st, v, "copy_" + k) if isinstance(v, Arr) else v) for k, v in src.items()}


def h_append(ex, st, node, args):
    prob = args[0]
    me = st.env["self"]
    s = st.fork()
    s.env.update(dict(_p=prob, _me=me))
    idx = ex.eval_spec("self.dom_indices_lst[var_idx]", st.old, {})  # the split variable's shared domain, from the property statement
    s.env["_idx"] = idx
    for label, clause in (
        ("C12.frame.rows", "forall(d, 0, D, implies(d != _idx, _p.shr_domains_lst[d, 0] == _me.shr_domains_lst[d, 0] and _p.shr_domains_lst[d, 1] == _me.shr_domains_lst[d, 1]))"),
        ("C12.frame.vars", "forall(v, 0, V, _p.dom_indices_lst[v] == _me.dom_indices_lst[v] and _p.dom_offsets_lst[v] == _me.dom_offsets_lst[v])"),
        ("C12.unshared", "True"),
    ):
        ex.oblige(st, "post", label, ex.eval_spec(clause, s, {}), tags={"C12", "C13"}, line=node.lineno)
    if prob["shr_domains_lst"].obj.id == me["shr_domains_lst"].obj.id:
        ex.oblige(st, "post", "C12.unshared", False, tags={"C12", "C13"}, line=node.lineno)
    parts = st.env["parts"]
    n = st.env["nparts"]
    row = ex.index(st, prob["shr_domains_lst"], [idx])
    ex.check_bounds, saved = False, ex.check_bounds
    try:
        ex.store(st, ex.index_for_store(st, parts, [n], "parts"), row)
    finally:
        ex.check_bounds = saved
    st.env["nparts"] = n + 1
    lo = st.env["problems"]
    ln, t = st.heap[lo.id]
    st.heap[lo.id] = (ln + 1, z3.Store(t, zint(ln), zint(n)))
    return None


A, B = "self.shr_domains_lst[self.dom_indices_lst[var_idx], 0]", "self.shr_domains_lst[self.dom_indices_lst[var_idx], 1]"
contract("nucs/problems/problem.py::Problem.split",
    types={"self": {"shr_domains_lst": "i64[D,2]", "dom_indices_lst": "i64[V]", "dom_offsets_lst": "i64[V]"}, "split_nb": "int", "var_idx": "int"},
    ghost={"parts": "i64[KMAX,2]"}, result="list[R]", props=["C12", "C16", "C13"],
    requires=["0 <= var_idx and var_idx < V", "forall(v, 0, V, 0 <= self.dom_indices_lst[v] and self.dom_indices_lst[v] < D)",
              f"{A} <= {B}", "split_nb >= 1", "KMAX >= split_nb"],
    env={"copy.deepcopy": h_deepcopy, "problems.append": h_append}, ghost_init={"nparts": 0},
    loops={1: dict(index="s", fingerprint="for range(split_nb)", also_modifies=["parts", "nparts", "problems"], invariant=[
        ("C12.count", "nparts == s and len(problems) == s"),
        ("C12.closed_form", "min_idx == shr_dom_min + s * (shr_dom_sz // split_nb) + min(s, shr_dom_sz % split_nb)"),
        ("C12.first", "implies(s > 0, parts[0, 0] == shr_dom_min)"),
        ("C12.chain", "forall(j, 0, s - 1, parts[j + 1, 0] == parts[j, 1] + 1)"),
        ("C12.last", "implies(s > 0, parts[s - 1, 1] + 1 == min_idx)"),
        ("C12.nonempty", "forall(j, 0, s, parts[j, 0] <= parts[j, 1])"),
        ("C12.self", "same(self.shr_domains_lst) and same(self.dom_indices_lst) and same(self.dom_offsets_lst)"),
    ])},
    ensures=[
        ("C12.count", f"nparts == min(split_nb, {B} - {A} + 1) and len(result) == nparts and nparts >= 1"),
        ("C12.first", f"parts[0, 0] == {A}"),
        ("C12.last", f"parts[nparts - 1, 1] == {B}"),
        ("C12.chain", "forall(j, 0, nparts - 1, parts[j + 1, 0] == parts[j, 1] + 1)"),
        ("C12.nonempty", "forall(j, 0, nparts, parts[j, 0] <= parts[j, 1])"),
        ("C12.self", "same(self.shr_domains_lst) and same(self.dom_indices_lst) and same(self.dom_offsets_lst)"),
    ],
    tags={"C12": ["C12", "C13"]}, arities=[])  # C13: the split is taken on the shared domain through the variable's offset; a parallel run of a model with views depends on it
