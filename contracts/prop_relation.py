# relation propagator in invariant mode (unbounded arity, unbounded table): the table is parameters viewed as rows x n.
# Ghost maps F (row of `tuples` -> table row) and G (table row -> row of `tuples`) are maintained through the boolean row filters
# (rowsrc / rowdst name the maps of the filter just executed): `tuples` is exactly the sub-table of the rows that fit the box on the
# columns processed so far.
from nucsvc.propspec import propagator
from nucsvc.values import ArrObj, Arr, fresh_int

OD = "old(domains)"
define("rowin(P, r, n, D, hi)", "forall(c, 0, hi, D[c, MIN] <= P[flat(r, n, c)] and P[flat(r, n, c)] <= D[c, MAX])")


def tuples_cases(ex, st, tag):
    def arr_case(s):
        L = fresh_int("ntuples" + tag)
        s.pc.append(L >= 0)
        obj = ArrObj("tuples" + tag, "i32", [L, s.ghost_env["n"]])
        s.heap[obj.id] = obj.fresh_term()
        s.env["tuples"] = Arr(obj)

    return [arr_case]


MAPS = [
    ("P3.len", "len(tuples) <= rows"),
    ("P3.F_range", "forall(j, 0, len(tuples), 0 <= F[j] and F[j] < rows and G[F[j]] == j)"),
    ("P3.cells", "forall(j, 0, len(tuples), forall(c, 0, n, tuples[j, c] == parameters[flat(F[j], n, c)]))"),
    ("P3.in_box", f"forall(j, 0, len(tuples), rowin(parameters, F[j], n, {OD}, domain_idx))"),
    ("P2.kept", f"forall(r, 0, rows, implies(rowin(parameters, r, n, {OD}, domain_idx), 0 <= G[r] and G[r] < len(tuples) and F[G[r]] == r))"),
]
TABLE = [("P1.same", "same(domains)")] + MAPS + [("P2.nonempty", "implies(domain_idx > 0, len(tuples) >= 1)")]
HULL = [
    ("P1.todo", f"forall(k, domain_idx, n, domains[k, MIN] == {OD}[k, MIN] and domains[k, MAX] == {OD}[k, MAX])"),
    ("P5.done", "forall(k, 0, domain_idx, forall(j, 0, len(tuples), domains[k, MIN] <= tuples[j, k] and tuples[j, k] <= domains[k, MAX])"
                " and exists(j, 0, len(tuples), tuples[j, k] == domains[k, MIN]) and exists(j, 0, len(tuples), tuples[j, k] == domains[k, MAX]))"),
]
P5 = [
    ("P5.min", f"implies(result != PROP_INCONSISTENCY, forall(k, 0, n, exists(r, 0, rows, rowin(parameters, r, n, {OD}, n) and parameters[flat(r, n, k)] == domains[k, MIN])))"),
    ("P5.max", f"implies(result != PROP_INCONSISTENCY, forall(k, 0, n, exists(r, 0, rows, rowin(parameters, r, n, {OD}, n) and parameters[flat(r, n, k)] == domains[k, MAX])))"),
]
propagator(REG, "nucs/propagators/relation_propagator.py::compute_domains_relation",
    rel="exists(r, 0, rows, forall(c, 0, n, @T[c] == parameters[flat(r, n, c)]))", n_min=1, params="i32[m]",
    requires=["rows >= 0", "m == rows * n", "forall(j, 0, rows, F0[j] == j and G0[j] == j)"],
    ghost={"rows": "int", "F0": "int[rows]", "G0": "int[rows]"}, ghost_init={"F": "@F0", "G": "@G0"},
    extra_ensures=[(l, c, ("C14",)) for l, c in P5], ghost_modifies=["F0", "G0"],
    loops={
        1: dict(index="domain_idx", fingerprint="for range(n)", var_types={"tuples": tuples_cases}, also_modifies=["F", "G"],
                ghost_updates={"F": "arr(j, rows, it0(F)[rowsrc(j)])", "G": "arr(r, rows, rowdst(it0(G)[r]))"}, invariant=TABLE),
        2: dict(index="domain_idx", fingerprint="for range(n)", invariant=HULL),
    },
    arities=[])
