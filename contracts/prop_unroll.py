# propagators verified in unroll mode only (arity-bounded proofs, values unbounded): no invariants needed
from nucsvc.propspec import propagator

I32 = "forall(k, 0, n, -2147483648 <= domains[k, MIN] and domains[k, MAX] <= 2147483647)"  # int32 cells (the element propagators use sys.maxsize as a sentinel)

define("lexleq(T, p)", "forall(k, 0, p, implies(forall(j, 0, k, T[j] == T[p + j]), T[k] <= T[p + k]))")
propagator(REG, "nucs/propagators/lexicographic_leq_propagator.py::compute_domains_lexicographic_leq",
    rel="lexleq(@T, n // 2)", n_min=2, requires=["n % 2 == 0", "m == 0"], props=["C05", "C06", "C07", "C14", "C16", "C01", "C08", "C04"],
    unroll_only=True, arities=[{"n": a, "m": 0} for a in (2, 4, 6, 8, 10)])
