# propagators verified in unroll mode only (arity-bounded proofs, values unbounded): no invariants needed
from nucsvc.propspec import propagator

I32 = "forall(k, 0, n, -2147483648 <= domains[k, MIN] and domains[k, MAX] <= 2147483647)"  # int32 cells (the element propagators use sys.maxsize as a sentinel)

propagator(REG, "nucs/propagators/element_iv_propagator.py::compute_domains_element_iv",
    rel="exists(k, 0, m, @T[0] == k and parameters[k] == @T[1])", n_min=2, requires=["n == 2", "m >= 1", I32, "forall(k, 0, m, -2147483648 <= parameters[k] and parameters[k] <= 2147483647)"],
    unroll_only=True, arities=[{"n": 2, "m": a} for a in (1, 2, 3, 4, 5)])

propagator(REG, "nucs/propagators/element_lic_propagator.py::compute_domains_element_lic",
    rel="exists(k, 0, n - 1, @T[n - 1] == k and @T[k] == parameters[0])", n_min=2, requires=["m == 1"],
    unroll_only=True, arities=[{"n": a, "m": 1} for a in (2, 3, 4, 5, 6, 7)])

propagator(REG, "nucs/propagators/element_liv_propagator.py::compute_domains_element_liv",
    rel="exists(k, 0, n - 2, @T[n - 2] == k and @T[k] == @T[n - 1])", n_min=3, requires=["m == 0", I32],
    unroll_only=True, arities=[{"n": a, "m": 0} for a in (3, 4, 5, 6)])

define("lexleq(T, p)", "forall(k, 0, p, implies(forall(j, 0, k, T[j] == T[p + j]), T[k] <= T[p + k]))")
propagator(REG, "nucs/propagators/lexicographic_leq_propagator.py::compute_domains_lexicographic_leq",
    rel="lexleq(@T, n // 2)", n_min=2, requires=["n % 2 == 0", "m == 0"], props=["C05", "C06", "C07", "C14", "C16", "C01", "C08", "C04"],
    unroll_only=True, arities=[{"n": a, "m": 0} for a in (2, 4, 6, 8, 10)])
