from nucsvc.propspec import propagator

HYP = 'inbox(t, old(domains), n) and sum(j, 0, n, parameters[j] * t[j]) == parameters[n]'

define("minterm(a, D, j)", "ite(a[j] > 0, a[j] * D[j, MIN], a[j] * D[j, MAX])")
define("maxterm(a, D, j)", "ite(a[j] > 0, a[j] * D[j, MAX], a[j] * D[j, MIN])")

L1 = dict(index="i", fingerprint="for enumerate(parameters[:-1])", invariant=[
    ("P2.summin", "domain_sum_min == parameters[n] - sum(j, 0, i, maxterm(parameters, old(domains), j))"),
    ("P2.summax", "domain_sum_max == parameters[n] - sum(j, 0, i, minterm(parameters, old(domains), j))"),
])

LIN_P1 = [
    ("P1.contract", "forall(k, 0, n, old(domains)[k, MIN] <= domains[k, MIN] and domains[k, MAX] <= old(domains)[k, MAX])"),
    ("P1.done", "forall(k, 0, i, domains[k, MIN] <= domains[k, MAX])"),
    ("P1.todo", "forall(k, i, n, domains[k, MIN] == old(domains)[k, MIN] and domains[k, MAX] == old(domains)[k, MAX])"),
]

# P5 (exact hull) for a ghost coordinate kk: the witness puts every other variable at its cheapest corner and kk at the bound under test
OD = "old(domains)"
CORNER_LEQ = f"ite(parameters[j] > 0, {OD}[j, MIN], {OD}[j, MAX])"
W_LEQ = lambda b: f"ite(j == kk, domains[kk, {b}], {CORNER_LEQ})"
P5_LEQ = [(f"P5.{b.lower()}", f"implies(result != PROP_INCONSISTENCY, let(W, arr(j, n, {W_LEQ(b)}), inbox(W, {OD}, n) and @R(W)))") for b in ("MIN", "MAX")]
P5_LEQ_HINTS = [f"lemma_sum_diff_one(j, 0, n, minterm(parameters, {OD}, j), parameters[j] * ({W_LEQ(b)}), kk)" for b in ("MIN", "MAX")] + \
               [f"lemma_sum_le(j, 0, n, parameters[j] * ({W_LEQ(b)}), maxterm(parameters, {OD}, j))" for b in ("MIN", "MAX")]

propagator(REG, "nucs/propagators/affine_leq_propagator.py::compute_domains_affine_leq",
    rel="sum(j, 0, n, parameters[j] * @T[j]) <= parameters[n]", n_min=1, params="i32[m]", requires=["m == n + 1", "0 <= kk and kk < n"],
    ghost={"kk": "int"}, p5=P5_LEQ,
    loops={1: L1, 2: dict(index="i", fingerprint="for enumerate(parameters[:-1])", invariant=LIN_P1 + [
        ("P3.corner", "forall(k, 0, n, implies(parameters[k] > 0, domains[k, MIN] == old(domains)[k, MIN]) and implies(parameters[k] < 0, domains[k, MAX] == old(domains)[k, MAX]))"),
        ("P2.tuple", "implies(inbox(t, old(domains), n) and sum(j, 0, n, parameters[j] * t[j]) <= parameters[n], forall(k, 0, i, domains[k, MIN] <= t[k] and t[k] <= domains[k, MAX]))"),
        ("P5.tight", "forall(k, 0, i, implies(parameters[k] > 0, parameters[k] * (domains[k, MAX] - old(domains)[k, MIN]) <= domain_sum_max) and implies(parameters[k] < 0, parameters[k] * (domains[k, MIN] - old(domains)[k, MAX]) <= domain_sum_max))"),
    ], hints=["lemma_sum_le(j, 0, n, minterm(parameters, old(domains), j), parameters[j] * t[j])"])},
    hints=["lemma_sum_le(j, 0, n, minterm(parameters, old(domains), j), parameters[j] * t[j])",
           "lemma_sum_le(j, 0, n, parameters[j] * u[j], maxterm(parameters, old(domains), j))",
           "lemma_sum_le(j, 0, n, minterm(parameters, domains, j), minterm(parameters, old(domains), j))",
           "lemma_sum_le(j, 0, n, parameters[j] * domains[j, MIN], minterm(parameters, domains, j))"] + P5_LEQ_HINTS,
    arities=[{"n": 1, "m": 2}, {"n": 2, "m": 3}, {"n": 3, "m": 4}])

CORNER_GEQ = f"ite(parameters[j] > 0, {OD}[j, MAX], {OD}[j, MIN])"
W_GEQ = lambda b: f"ite(j == kk, domains[kk, {b}], {CORNER_GEQ})"
P5_GEQ = [(f"P5.{b.lower()}", f"implies(result != PROP_INCONSISTENCY, let(W, arr(j, n, {W_GEQ(b)}), inbox(W, {OD}, n) and @R(W)))") for b in ("MIN", "MAX")]
P5_GEQ_HINTS = [f"lemma_sum_diff_one(j, 0, n, maxterm(parameters, {OD}, j), parameters[j] * ({W_GEQ(b)}), kk)" for b in ("MIN", "MAX")] + \
               [f"lemma_sum_le(j, 0, n, minterm(parameters, {OD}, j), parameters[j] * ({W_GEQ(b)}))" for b in ("MIN", "MAX")]

propagator(REG, "nucs/propagators/affine_geq_propagator.py::compute_domains_affine_geq",
    rel="sum(j, 0, n, parameters[j] * @T[j]) >= parameters[n]", n_min=1, params="i32[m]", requires=["m == n + 1", "0 <= kk and kk < n"],
    ghost={"kk": "int"}, p5=P5_GEQ,
    loops={1: L1, 2: dict(index="i", fingerprint="for enumerate(parameters[:-1])", invariant=LIN_P1 + [
        ("P3.corner", "forall(k, 0, n, implies(parameters[k] > 0, domains[k, MAX] == old(domains)[k, MAX]) and implies(parameters[k] < 0, domains[k, MIN] == old(domains)[k, MIN]))"),
        ("P2.tuple", "implies(inbox(t, old(domains), n) and sum(j, 0, n, parameters[j] * t[j]) >= parameters[n], forall(k, 0, i, domains[k, MIN] <= t[k] and t[k] <= domains[k, MAX]))"),
        ("P5.tight", "forall(k, 0, i, implies(parameters[k] > 0, parameters[k] * (old(domains)[k, MAX] - domains[k, MIN]) <= 0 - domain_sum_min) and implies(parameters[k] < 0, parameters[k] * (old(domains)[k, MIN] - domains[k, MAX]) <= 0 - domain_sum_min))"),
    ], hints=["lemma_sum_le(j, 0, n, parameters[j] * t[j], maxterm(parameters, old(domains), j))"])},
    hints=["lemma_sum_le(j, 0, n, parameters[j] * t[j], maxterm(parameters, old(domains), j))",
           "lemma_sum_le(j, 0, n, minterm(parameters, old(domains), j), parameters[j] * u[j])",
           "lemma_sum_le(j, 0, n, maxterm(parameters, old(domains), j), maxterm(parameters, domains, j))",
           "lemma_sum_le(j, 0, n, maxterm(parameters, domains, j), parameters[j] * domains[j, MIN])"] + P5_GEQ_HINTS,
    arities=[{"n": 1, "m": 2}, {"n": 2, "m": 3}, {"n": 3, "m": 4}])

L3 = dict(index="i", fingerprint="for enumerate(parameters[:-1])", invariant=[
    ("P3.summin", "domain_sum_min == parameters[n] - sum(j, 0, i, maxterm(parameters, domains, j))"),
    ("P3.summax", "domain_sum_max == parameters[n] - sum(j, 0, i, minterm(parameters, domains, j))"),
])

propagator(REG, "nucs/propagators/affine_eq_propagator.py::compute_domains_affine_eq",
    rel="sum(j, 0, n, parameters[j] * @T[j]) == parameters[n]", n_min=1, params="i32[m]", requires=["m == n + 1"], entail=False,
    loops={1: L1, 2: dict(index="i", fingerprint="for enumerate(parameters[:-1])", invariant=LIN_P1 + [
        ("P2.tuple", "implies(inbox(t, old(domains), n) and sum(j, 0, n, parameters[j] * t[j]) == parameters[n], forall(k, 0, i, domains[k, MIN] <= t[k] and t[k] <= domains[k, MAX]))"),
    ], hints=["lemma_sum_le(j, 0, n, minterm(parameters, old(domains), j), parameters[j] * t[j])",
              "lemma_sum_le(j, 0, n, parameters[j] * t[j], maxterm(parameters, old(domains), j))"],
       scoped_hints=True, cuts=[
        ("P2.gap_min", "implies(inbox(t, old(domains), n) and sum(j, 0, n, parameters[j] * t[j]) == parameters[n], parameters[i] * t[i] - minterm(parameters, old(domains), i) <= domain_sum_max)"),
        ("P2.gap_max", "implies(inbox(t, old(domains), n) and sum(j, 0, n, parameters[j] * t[j]) == parameters[n], maxterm(parameters, old(domains), i) - parameters[i] * t[i] <= 0 - domain_sum_min)"),
        ("P2.quot_pos", f"implies(({HYP}) and c > 0, old(domains)[i, MAX] - t[i] <= domain_sum_min // -c and t[i] - old(domains)[i, MIN] <= domain_sum_max // c)"),
        ("P2.quot_neg", f"implies(({HYP}) and c < 0, old(domains)[i, MAX] - t[i] <= -domain_sum_max // c and t[i] - old(domains)[i, MIN] <= -domain_sum_min // -c)"),
       ]),
           3: L3},
    hints=["lemma_sum_le(j, 0, n, minterm(parameters, old(domains), j), parameters[j] * t[j])",
           "lemma_sum_le(j, 0, n, parameters[j] * t[j], maxterm(parameters, old(domains), j))",
           "lemma_sum_le(j, 0, n, minterm(parameters, domains, j), parameters[j] * t[j])",
           "lemma_sum_le(j, 0, n, parameters[j] * t[j], maxterm(parameters, domains, j))",
           "lemma_sum_le(j, 0, n, maxterm(parameters, domains, j), parameters[j] * domains[j, MIN])",
           "lemma_sum_le(j, 0, n, parameters[j] * domains[j, MIN], minterm(parameters, domains, j))"],
    arities=[{"n": 1, "m": 2}, {"n": 2, "m": 3}, {"n": 3, "m": 4}])
