# counting propagators in invariant mode (unbounded arity); replaces the arity-bounded contracts of prop_unroll.py
from nucsvc.propspec import propagator

define("possA(D, j, a)", "D[j, MIN] <= a and a <= D[j, MAX]")
define("fixA(D, j, a)", "D[j, MIN] == a and D[j, MAX] == a")

A = "parameters[0]"
OLD = "old(domains)"
POSS = f"ite(possA({OLD}, j, {A}), 1, 0)"
FIX = f"ite(fixA({OLD}, j, {A}), 1, 0)"
IND_T = f"ite(t[j] == {A}, 1, 0)"
IND_U = f"ite(u[j] == {A}, 1, 0)"
IND_NEW = f"ite(domains[j, MIN] == {A}, 1, 0)"
REL_HYP = f"inbox(t, {OLD}, n) and count(j, 0, n, t[j] == {A}) == parameters[1]"
ROW_P1 = [
    ("P1.contract", f"forall(k, 0, n, {OLD}[k, MIN] <= domains[k, MIN] and domains[k, MAX] <= {OLD}[k, MAX])"),
    ("P1.done", "forall(k, 0, i, domains[k, MIN] <= domains[k, MAX])"),
    ("P1.todo", f"forall(k, i, n, domains[k, MIN] == {OLD}[k, MIN] and domains[k, MAX] == {OLD}[k, MAX])"),
]
COMMON_HINTS = [
    f"lemma_sum_le(j, 0, n, {FIX}, {IND_T})", f"lemma_sum_le(j, 0, n, {IND_T}, {POSS})",
    f"lemma_sum_le(j, 0, n, {FIX}, {IND_U})", f"lemma_sum_le(j, 0, n, {IND_U}, {POSS})",
    f"lemma_sum_le(j, 0, n, {IND_NEW}, {FIX})", f"lemma_sum_le(j, 0, n, {FIX}, {IND_NEW})",
    f"lemma_sum_le(j, 0, n, {IND_NEW}, {POSS})", f"lemma_sum_le(j, 0, n, {POSS}, {IND_NEW})",
    f"lemma_sum_le(j, 0, n, {FIX}, {POSS})", f"lemma_sum_le(j, 0, n, {POSS}, {FIX})",
]
propagator(REG, "nucs/propagators/exactly_eq_propagator.py::compute_domains_exactly_eq",
    rel="count(j, 0, n, @T[j] == parameters[0]) == parameters[1]", n_min=1, requires=["m == 2", "0 <= parameters[1] and parameters[1] <= n"],
    loops={
        1: dict(index="i", fingerprint="for domains", invariant=[
            ("P2.count_max", f"count_max == (n - i) + sum(j, 0, i, {POSS}) - parameters[1] and count_max >= 0"),
            ("P2.count_min", f"count_min == sum(j, 0, i, {FIX}) - parameters[1] and count_min <= 0"),
            ("P1.same", "same(domains)"),
        ], hints=[f"lemma_sum_le(j, 0, i + 1, {IND_T}, {POSS})", f"lemma_sum_le(j, 0, i + 1, {FIX}, {IND_T})",
                  f"lemma_sum_incr(j, 0, n, {IND_T}, i + 1)"]),
        2: dict(index="i", fingerprint="for domains", invariant=ROW_P1 + [
            ("P2.tuple", f"implies({REL_HYP}, forall(k, 0, i, domains[k, MIN] <= t[k] and t[k] <= domains[k, MAX]))"),
            ("P3.fixed", f"forall(k, 0, n, implies(fixA({OLD}, k, {A}), fixA(domains, k, {A})))"),
            ("P3.pruned", f"forall(k, 0, i, implies(not fixA({OLD}, k, {A}), domains[k, MIN] != {A} and domains[k, MAX] != {A}))"),
        ], hints=[f"lemma_sum_le(j, 0, n, {FIX}, {IND_T})"]),
        3: dict(index="i", fingerprint="for domains", invariant=ROW_P1 + [
            ("P2.tuple", f"implies({REL_HYP}, forall(k, 0, i, domains[k, MIN] <= t[k] and t[k] <= domains[k, MAX]))"),
            ("P3.set", f"forall(k, 0, i, implies(possA({OLD}, k, {A}), fixA(domains, k, {A})))"),
            ("P3.keep", f"forall(k, 0, n, implies(not possA({OLD}, k, {A}), domains[k, MIN] == {OLD}[k, MIN] and domains[k, MAX] == {OLD}[k, MAX]))"),
        ], hints=[f"lemma_sum_le(j, 0, n, {IND_T}, {POSS})"]),
    },
    hints=COMMON_HINTS,
    arities=[{"n": a, "m": 2} for a in (1, 2, 3)])

# ---------------------------------------------------------------- exactly_true: booleans, a = 1, c = parameters[0]
def swap(s):
    return s.replace("parameters[0]", "1").replace("parameters[1]", "parameters[0]")


propagator(REG, "nucs/propagators/exactly_true_propagator.py::compute_domains_exactly_true",
    rel="count(j, 0, n, @T[j] == 1) == parameters[0]", n_min=1,
    requires=["m == 1", "0 <= parameters[0] and parameters[0] <= n", "forall(k, 0, n, 0 <= domains[k, MIN] and domains[k, MAX] <= 1)"],
    loops={
        1: dict(index="i", fingerprint="for domains", invariant=[
            ("P2.count_max", swap(f"count_max == (n - i) + sum(j, 0, i, {POSS}) - parameters[1] and count_max >= 0")),
            ("P2.count_min", swap(f"count_min == sum(j, 0, i, {FIX}) - parameters[1] and count_min <= 0")),
            ("P1.same", "same(domains)"),
        ], hints=[swap(f"lemma_sum_le(j, 0, i + 1, {IND_T}, {POSS})"), swap(f"lemma_sum_le(j, 0, i + 1, {FIX}, {IND_T})"),
                  swap(f"lemma_sum_incr(j, 0, n, {IND_T}, i + 1)")]),
        2: dict(index="i", fingerprint="for domains", invariant=ROW_P1 + [
            ("P2.tuple", swap(f"implies({REL_HYP}, forall(k, 0, i, domains[k, MIN] <= t[k] and t[k] <= domains[k, MAX]))")),
            ("P3.fixed", swap(f"forall(k, 0, n, implies(fixA({OLD}, k, {A}), fixA(domains, k, {A})))")),
            ("P3.pruned", swap(f"forall(k, 0, i, implies(not fixA({OLD}, k, {A}), domains[k, MIN] != {A} and domains[k, MAX] != {A}))")),
        ], hints=[swap(f"lemma_sum_le(j, 0, n, {FIX}, {IND_T})")]),
        3: dict(index="i", fingerprint="for domains", invariant=ROW_P1 + [
            ("P2.tuple", swap(f"implies({REL_HYP}, forall(k, 0, i, domains[k, MIN] <= t[k] and t[k] <= domains[k, MAX]))")),
            ("P3.set", swap(f"forall(k, 0, i, implies(possA({OLD}, k, {A}), fixA(domains, k, {A})))")),
            ("P3.keep", swap(f"forall(k, 0, n, implies(not possA({OLD}, k, {A}), domains[k, MIN] == {OLD}[k, MIN] and domains[k, MAX] == {OLD}[k, MAX]))")),
        ], hints=[swap(f"lemma_sum_le(j, 0, n, {IND_T}, {POSS})")]),
    },
    hints=[swap(h) for h in COMMON_HINTS],
    arities=[{"n": a, "m": 1} for a in (1, 2, 3)])

# ---------------------------------------------------------------- count_eq: x = domains[:-1], counter = domains[-1], a = parameters[0]
N = "(n - 1)"
REL_HYP_C = f"inbox(t, {OLD}, n) and count(j, 0, {N}, t[j] == {A}) == t[{N}]"
X_P1 = [
    ("P1.contract", f"forall(k, 0, {N}, {OLD}[k, MIN] <= domains[k, MIN] and domains[k, MAX] <= {OLD}[k, MAX])"),
    ("P1.done", "forall(k, 0, i, domains[k, MIN] <= domains[k, MAX])"),
    ("P1.todo", f"forall(k, i, {N}, domains[k, MIN] == pre(domains)[k, MIN] and domains[k, MAX] == pre(domains)[k, MAX])"),
    ("P1.counter", f"domains[{N}, MIN] == pre(domains)[{N}, MIN] and domains[{N}, MAX] == pre(domains)[{N}, MAX]"),
]
CH = [h.replace("0, n,", f"0, {N},") for h in COMMON_HINTS]
propagator(REG, "nucs/propagators/count_eq_propagator.py::compute_domains_count_eq",
    rel=f"count(j, 0, n - 1, @T[j] == parameters[0]) == @T[n - 1]", n_min=2, requires=["m == 1"],
    loops={
        1: dict(index="i", fingerprint="for x", invariant=[
            ("P2.count_max", f"count_max == ({N} - i) + sum(j, 0, i, {POSS})"),
            ("P2.count_min", f"count_min == sum(j, 0, i, {FIX})"),
            ("P1.same", "same(domains)"),
        ]),
        2: dict(index="i", fingerprint="for x", invariant=X_P1 + [
            ("P2.tuple", f"implies({REL_HYP_C}, forall(k, 0, i, domains[k, MIN] <= t[k] and t[k] <= domains[k, MAX]))"),
            ("P3.fixed", f"forall(k, 0, {N}, implies(fixA({OLD}, k, {A}), fixA(domains, k, {A})))"),
            ("P3.pruned", f"forall(k, 0, i, implies(not fixA({OLD}, k, {A}), domains[k, MIN] != {A} and domains[k, MAX] != {A}))"),
        ], hints=[f"lemma_sum_le(j, 0, {N}, {FIX}, {IND_T})"]),
        3: dict(index="i", fingerprint="for x", invariant=X_P1 + [
            ("P2.tuple", f"implies({REL_HYP_C}, forall(k, 0, i, domains[k, MIN] <= t[k] and t[k] <= domains[k, MAX]))"),
            ("P3.set", f"forall(k, 0, i, implies(possA(pre(domains), k, {A}), fixA(domains, k, {A})))"),
            ("P3.keep", f"forall(k, 0, {N}, implies(not possA(pre(domains), k, {A}), domains[k, MIN] == pre(domains)[k, MIN] and domains[k, MAX] == pre(domains)[k, MAX]))"),
        ], hints=[f"lemma_sum_le(j, 0, {N}, {IND_T}, {POSS})"]),
    },
    hints=CH,
    arities=[{"n": a, "m": 1} for a in (2, 3, 4)])
