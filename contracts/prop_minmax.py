from nucsvc.propspec import propagator

Y_SAME = ("P1.y", "domains[n - 1, MIN] == pre(domains)[n - 1, MIN] and domains[n - 1, MAX] == pre(domains)[n - 1, MAX]")

OD = "old(domains)"
NOT_INC = "result != PROP_INCONSISTENCY"
# P5 (exact hull) by closed-form witnesses: all x at their lower bound, y at its upper bound, one coordinate moved to the bound under test
WIT = lambda xk, yv: f"arr(j, n, ite(j == n - 1, {yv}, ite(j == k, {xk}, {OD}[j, MIN])))"
P5_MAX_LEQ = [
    ("P5.x_min", f"implies({NOT_INC}, forall(k, 0, n - 1, let(W, {WIT(OD + '[k, MIN]', OD + '[n - 1, MAX]')}, inbox(W, {OD}, n) and @R(W) and W[k] == domains[k, MIN])))"),
    ("P5.x_max", f"implies({NOT_INC}, forall(k, 0, n - 1, let(W, {WIT('domains[k, MAX]', OD + '[n - 1, MAX]')}, inbox(W, {OD}, n) and @R(W) and W[k] == domains[k, MAX])))"),
    ("P5.y_min", f"implies({NOT_INC}, let(k, n - 1, let(W, {WIT('0', 'domains[n - 1, MIN]')}, inbox(W, {OD}, n) and @R(W) and W[n - 1] == domains[n - 1, MIN])))"),
    ("P5.y_max", f"implies({NOT_INC}, let(k, n - 1, let(W, {WIT('0', 'domains[n - 1, MAX]')}, inbox(W, {OD}, n) and @R(W) and W[n - 1] == domains[n - 1, MAX])))"),
]

propagator(REG, "nucs/propagators/max_leq_propagator.py::compute_domains_max_leq",
    rel="forall(k, 0, n - 1, @T[k] <= @T[n - 1])", n_min=2, p5=P5_MAX_LEQ,
    loops={1: dict(index="i", fingerprint="for range(len(x))", invariant=[
        ("P1.min", "forall(k, 0, n, domains[k, MIN] == pre(domains)[k, MIN])"),
        Y_SAME,
        ("P2.done", "forall(k, 0, i, domains[k, MAX] == min(pre(domains)[k, MAX], domains[n - 1, MAX]) and domains[k, MIN] <= domains[k, MAX])"),
        ("P1.todo", "forall(k, i, n - 1, domains[k, MAX] == pre(domains)[k, MAX])"),
    ])},
    tags={"P1": ["C05"], "P2": ["C05"]})

WIT2 = lambda xk, yv: f"arr(j, n, ite(j == n - 1, {yv}, ite(j == k, {xk}, {OD}[j, MAX])))"
P5_MIN_GEQ = [
    ("P5.x_max", f"implies({NOT_INC}, forall(k, 0, n - 1, let(W, {WIT2(OD + '[k, MAX]', OD + '[n - 1, MIN]')}, inbox(W, {OD}, n) and @R(W) and W[k] == domains[k, MAX])))"),
    ("P5.x_min", f"implies({NOT_INC}, forall(k, 0, n - 1, let(W, {WIT2('domains[k, MIN]', OD + '[n - 1, MIN]')}, inbox(W, {OD}, n) and @R(W) and W[k] == domains[k, MIN])))"),
    ("P5.y_min", f"implies({NOT_INC}, let(k, n - 1, let(W, {WIT2('0', 'domains[n - 1, MIN]')}, inbox(W, {OD}, n) and @R(W) and W[n - 1] == domains[n - 1, MIN])))"),
    ("P5.y_max", f"implies({NOT_INC}, let(k, n - 1, let(W, {WIT2('0', 'domains[n - 1, MAX]')}, inbox(W, {OD}, n) and @R(W) and W[n - 1] == domains[n - 1, MAX])))"),
]
propagator(REG, "nucs/propagators/min_geq_propagator.py::compute_domains_min_geq",
    rel="forall(k, 0, n - 1, @T[k] >= @T[n - 1])", n_min=2, p5=P5_MIN_GEQ,
    loops={1: dict(index="i", fingerprint="for range(len(x))", invariant=[
        ("P1.max", "forall(k, 0, n, domains[k, MAX] == pre(domains)[k, MAX])"),
        Y_SAME,
        ("P2.done", "forall(k, 0, i, domains[k, MIN] == max(pre(domains)[k, MIN], domains[n - 1, MIN]) and domains[k, MIN] <= domains[k, MAX])"),
        ("P1.todo", "forall(k, i, n - 1, domains[k, MIN] == pre(domains)[k, MIN])"),
    ])},
    tags={"P1": ["C05"], "P2": ["C05"]})

propagator(REG, "nucs/propagators/max_eq_propagator.py::compute_domains_max_eq",
    rel="forall(k, 0, n - 1, @T[k] <= @T[n - 1]) and exists(k, 0, n - 1, @T[k] == @T[n - 1])", n_min=2, entail=False,
    loops={1: dict(index="i", fingerprint="for range(len(x))", invariant=[
        ("P1.min", "forall(k, 0, n - 1, domains[k, MIN] == pre(domains)[k, MIN])"),
        Y_SAME,
        ("P2.done", "forall(k, 0, i, domains[k, MAX] == min(pre(domains)[k, MAX], domains[n - 1, MAX]))"),
        ("P1.todo", "forall(k, i, n - 1, domains[k, MAX] == pre(domains)[k, MAX])"),
        ("P2.cand0", "candidates_nb >= 0 and implies(candidates_nb == 0, forall(k, 0, i, domains[k, MAX] < domains[n - 1, MIN]))"),
        ("P2.cand1", "implies(candidates_nb >= 1, 0 <= candidate_idx and candidate_idx < i and domains[candidate_idx, MAX] >= domains[n - 1, MIN])"),
        ("P2.cand_unique", "implies(candidates_nb == 1, forall(k, 0, i, implies(k != candidate_idx, domains[k, MAX] < domains[n - 1, MIN])))"),
    ])},
    tags={"P1": ["C05"], "P2": ["C05"]})

propagator(REG, "nucs/propagators/min_eq_propagator.py::compute_domains_min_eq",
    rel="forall(k, 0, n - 1, @T[k] >= @T[n - 1]) and exists(k, 0, n - 1, @T[k] == @T[n - 1])", n_min=2, entail=False,
    loops={1: dict(index="i", fingerprint="for range(len(x))", invariant=[
        ("P1.max", "forall(k, 0, n - 1, domains[k, MAX] == pre(domains)[k, MAX])"),
        Y_SAME,
        ("P2.done", "forall(k, 0, i, domains[k, MIN] == max(pre(domains)[k, MIN], domains[n - 1, MIN]))"),
        ("P1.todo", "forall(k, i, n - 1, domains[k, MIN] == pre(domains)[k, MIN])"),
        ("P2.cand0", "candidates_nb >= 0 and implies(candidates_nb == 0, forall(k, 0, i, domains[k, MIN] > domains[n - 1, MAX]))"),
        ("P2.cand1", "implies(candidates_nb >= 1, 0 <= candidate_idx and candidate_idx < i and domains[candidate_idx, MIN] <= domains[n - 1, MAX])"),
        ("P2.cand_unique", "implies(candidates_nb == 1, forall(k, 0, i, implies(k != candidate_idx, domains[k, MIN] > domains[n - 1, MAX])))"),
    ])},
    tags={"P1": ["C05"], "P2": ["C05"]})

propagator(REG, "nucs/propagators/dummy_propagator.py::compute_domains_dummy", rel="True", n_min=0, entail=False)

propagator(REG, "nucs/propagators/and_propagator.py::compute_domains_and",
    rel="iff(forall(k, 0, n - 1, @T[k] == 1), @T[n - 1] == 1)", n_min=2, entail=False,
    requires=["forall(k, 0, n, 0 <= domains[k, MIN] and domains[k, MAX] <= 1)"],
    loops={1: dict(index="i", fingerprint="for range(len(x))", invariant=[
        ("P1.same", "same_pre(domains)"),
        ("P2.cand0", "candidates_nb >= 0 and implies(candidates_nb == 0, forall(k, 0, i, domains[k, MIN] != 0))"),
        ("P2.cand1", "implies(candidates_nb >= 1, 0 <= candidate_idx and candidate_idx < i and domains[candidate_idx, MIN] == 0)"),
        ("P2.cand_unique", "implies(candidates_nb == 1, forall(k, 0, i, implies(k != candidate_idx, domains[k, MIN] != 0)))"),
    ])},
    tags={"P1": ["C05"], "P2": ["C05"]})
