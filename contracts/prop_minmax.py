from nucsvc.propspec import propagator

Y_SAME = ("P1.y", "domains[n - 1, MIN] == pre(domains)[n - 1, MIN] and domains[n - 1, MAX] == pre(domains)[n - 1, MAX]")

OD = "old(domains)"
NOT_INC = "result != PROP_INCONSISTENCY"
# P5 (exact hull) by closed-form witnesses: all x at their lower bound, y at its upper bound, one coordinate moved to the bound under test
WIT = lambda xk, yv: f"arr(j, n, ite(j == n - 1, {yv}, ite(j == k, {xk}, {OD}[j, MIN])))"
P5_MAX_LEQ = [
    ("P5.x_min", f"implies({NOT_INC}, forall(k, 0, n - 1, let(W, {WIT(OD + '[k, MIN]', OD + '[n - 1, MAX]')}, inbox(W, {OD}, n) and @R(W) and W[k] == domains[k, MIN])))"),
    ("P5.x_max", f"implies({NOT_INC}, forall(k, 0, n - 1, let(W, {WIT('domains[k, MAX]', OD + '[n - 1, MAX]')}, inbox(W, {OD}, n) and @R(W) and W[k] == domains[k, MAX])))"),
    ("P5.y_min", f"implies({NOT_INC}, let(k, n - 1, let(W, {WIT('0', 'domains[n - 1, MIN]')}, inbox(W, {OD}, n) and @R(W) and W[n - 1] == domains[n - 1, MIN])))"),
    ("P5.y_max", f"implies({NOT_INC}, let(k, n - 1, let(W, {WIT('0', 'domains[n - 1, MAX]')}, inbox(W, {OD}, n) and @R(W) and W[n - 1] == domains[n - 1, MAX])))"),
]

propagator(REG, "nucs/propagators/max_leq_propagator.py::compute_domains_max_leq",
    rel="forall(k, 0, n - 1, @T[k] <= @T[n - 1])", n_min=2, p5=P5_MAX_LEQ,
    loops={1: dict(index="i", fingerprint="for range(len(x))", invariant=[
        ("P1.min", "forall(k, 0, n, domains[k, MIN] == pre(domains)[k, MIN])"),
        Y_SAME,
        ("P2.done", "forall(k, 0, i, domains[k, MAX] == min(pre(domains)[k, MAX], domains[n - 1, MAX]) and domains[k, MIN] <= domains[k, MAX])"),
        ("P1.todo", "forall(k, i, n - 1, domains[k, MAX] == pre(domains)[k, MAX])"),
    ])},
    tags={"P1": ["C05"], "P2": ["C05"]})

WIT2 = lambda xk, yv: f"arr(j, n, ite(j == n - 1, {yv}, ite(j == k, {xk}, {OD}[j, MAX])))"
P5_MIN_GEQ = [
    ("P5.x_max", f"implies({NOT_INC}, forall(k, 0, n - 1, let(W, {WIT2(OD + '[k, MAX]', OD + '[n - 1, MIN]')}, inbox(W, {OD}, n) and @R(W) and W[k] == domains[k, MAX])))"),
    ("P5.x_min", f"implies({NOT_INC}, forall(k, 0, n - 1, let(W, {WIT2('domains[k, MIN]', OD + '[n - 1, MIN]')}, inbox(W, {OD}, n) and @R(W) and W[k] == domains[k, MIN])))"),
    ("P5.y_min", f"implies({NOT_INC}, let(k, n - 1, let(W, {WIT2('0', 'domains[n - 1, MIN]')}, inbox(W, {OD}, n) and @R(W) and W[n - 1] == domains[n - 1, MIN])))"),
    ("P5.y_max", f"implies({NOT_INC}, let(k, n - 1, let(W, {WIT2('0', 'domains[n - 1, MAX]')}, inbox(W, {OD}, n) and @R(W) and W[n - 1] == domains[n - 1, MAX])))"),
]
propagator(REG, "nucs/propagators/min_geq_propagator.py::compute_domains_min_geq",
    rel="forall(k, 0, n - 1, @T[k] >= @T[n - 1])", n_min=2, p5=P5_MIN_GEQ,
    loops={1: dict(index="i", fingerprint="for range(len(x))", invariant=[
        ("P1.max", "forall(k, 0, n, domains[k, MAX] == pre(domains)[k, MAX])"),
        Y_SAME,
        ("P2.done", "forall(k, 0, i, domains[k, MIN] == max(pre(domains)[k, MIN], domains[n - 1, MIN]) and domains[k, MIN] <= domains[k, MAX])"),
        ("P1.todo", "forall(k, i, n - 1, domains[k, MIN] == pre(domains)[k, MIN])"),
    ])},
    tags={"P1": ["C05"], "P2": ["C05"]})

# P5 (exact hull) for max_eq / min_eq: y takes the value yv (the bound under test, pushed into y's range), one variable c carries yv
# (the variable under test itself when its bound can be the extremum), every other variable sits at its own far bound
def p5_ext(bound, kind):
    b = f"domains[k, {bound}]"
    far, clip = ("MIN", "max") if kind == "max" else ("MAX", "min")
    cmp_ = ">=" if kind == "max" else "<="
    yfar = f"domains[n - 1, {far}]"
    good = f"inbox(W, domains, n) and inbox(W, {OD}, n) and @R(W) and W[k] == {b}"
    # (a) the bound under test can itself be the extremum: x_k = y = b, the others at their far bound
    wa = f"arr(j, n, ite(j == n - 1, {b}, ite(j == k, {b}, domains[j, {far}])))"
    # (b) it cannot: y at its far bound, carried by another variable c
    wb = f"arr(j, n, ite(j == n - 1, {yfar}, ite(j == k, {b}, ite(j == c, {yfar}, domains[j, {far}]))))"
    # (c) a bound of y: carried by some variable c
    wc = f"arr(j, n, ite(j == n - 1, {b}, ite(j == c, {b}, domains[j, {far}])))"
    lb = bound.lower()
    return [
        (f"P5.x_{lb}_self", f"implies({NOT_INC}, forall(k, 0, n - 1, implies({b} {cmp_} {yfar}, let(W, {wa}, {good}))))"),
        (f"P5.x_{lb}_other", f"implies({NOT_INC}, forall(k, 0, n - 1, implies(not ({b} {cmp_} {yfar}), exists(c, 0, n - 1, c != k and domains[c, MIN] <= {yfar} and {yfar} <= domains[c, MAX] and let(W, {wb}, {good})))))"),
        (f"P5.y_{lb}", f"implies({NOT_INC}, let(k, n - 1, exists(c, 0, n - 1, domains[c, MIN] <= {b} and {b} <= domains[c, MAX] and let(W, {wc}, {good}))))"),
    ]


propagator(REG, "nucs/propagators/max_eq_propagator.py::compute_domains_max_eq", p5=p5_ext("MIN", "max") + p5_ext("MAX", "max"),
    rel="forall(k, 0, n - 1, @T[k] <= @T[n - 1]) and exists(k, 0, n - 1, @T[k] == @T[n - 1])", n_min=2, entail=False,
    loops={1: dict(index="i", fingerprint="for range(len(x))", invariant=[
        ("P1.min", "forall(k, 0, n - 1, domains[k, MIN] == pre(domains)[k, MIN])"),
        Y_SAME,
        ("P2.done", "forall(k, 0, i, domains[k, MAX] == min(pre(domains)[k, MAX], domains[n - 1, MAX]))"),
        ("P1.todo", "forall(k, i, n - 1, domains[k, MAX] == pre(domains)[k, MAX])"),
        ("P2.cand0", "candidates_nb >= 0 and implies(candidates_nb == 0, forall(k, 0, i, domains[k, MAX] < domains[n - 1, MIN]))"),
        ("P2.cand1", "implies(candidates_nb >= 1, 0 <= candidate_idx and candidate_idx < i and domains[candidate_idx, MAX] >= domains[n - 1, MIN])"),
        ("P2.cand_unique", "implies(candidates_nb == 1, forall(k, 0, i, implies(k != candidate_idx, domains[k, MAX] < domains[n - 1, MIN])))"),
        ("P5.cand_second", "implies(candidates_nb >= 2, exists(k, 0, i, k != candidate_idx and domains[k, MAX] >= domains[n - 1, MIN]))"),
    ])},
    tags={"P1": ["C05"], "P2": ["C05"]})

propagator(REG, "nucs/propagators/min_eq_propagator.py::compute_domains_min_eq", p5=p5_ext("MIN", "min") + p5_ext("MAX", "min"),
    rel="forall(k, 0, n - 1, @T[k] >= @T[n - 1]) and exists(k, 0, n - 1, @T[k] == @T[n - 1])", n_min=2, entail=False,
    loops={1: dict(index="i", fingerprint="for range(len(x))", invariant=[
        ("P1.max", "forall(k, 0, n - 1, domains[k, MAX] == pre(domains)[k, MAX])"),
        Y_SAME,
        ("P2.done", "forall(k, 0, i, domains[k, MIN] == max(pre(domains)[k, MIN], domains[n - 1, MIN]))"),
        ("P1.todo", "forall(k, i, n - 1, domains[k, MIN] == pre(domains)[k, MIN])"),
        ("P2.cand0", "candidates_nb >= 0 and implies(candidates_nb == 0, forall(k, 0, i, domains[k, MIN] > domains[n - 1, MAX]))"),
        ("P2.cand1", "implies(candidates_nb >= 1, 0 <= candidate_idx and candidate_idx < i and domains[candidate_idx, MIN] <= domains[n - 1, MAX])"),
        ("P2.cand_unique", "implies(candidates_nb == 1, forall(k, 0, i, implies(k != candidate_idx, domains[k, MIN] > domains[n - 1, MAX])))"),
        ("P5.cand_second", "implies(candidates_nb >= 2, exists(k, 0, i, k != candidate_idx and domains[k, MIN] <= domains[n - 1, MAX]))"),
    ])},
    tags={"P1": ["C05"], "P2": ["C05"]})

propagator(REG, "nucs/propagators/dummy_propagator.py::compute_domains_dummy", rel="True", n_min=0, entail=False)

# P5 (exact hull) for `and`: the witness is the all-ones tuple when the bound under test is 1 and y may be 1; otherwise y = 0, the variable
# under test at its bound, some OTHER variable c that can be 0 at 0 (c is the variable itself when its bound is 0), the rest at their minimum
def p5_and(bound):
    b = f"domains[k, {bound}]"
    all1 = f"({b} == 1 and domains[n - 1, MAX] == 1)"
    w = f"arr(j, n, ite({all1}, 1, ite(j == k, {b}, ite(j == n - 1, 0, ite(j == c, 0, domains[j, MIN])))))"
    cok = f"(({all1}) or (c == k and {b} == 0 and k < n - 1) or (c != k and domains[c, MIN] == 0))"
    return (f"P5.{bound.lower()}", f"implies({NOT_INC}, forall(k, 0, n, exists(c, 0, n - 1, {cok} and let(W, {w}, inbox(W, domains, n) and inbox(W, {OD}, n) and @R(W) and W[k] == {b}))))")


propagator(REG, "nucs/propagators/and_propagator.py::compute_domains_and",
    rel="iff(forall(k, 0, n - 1, @T[k] == 1), @T[n - 1] == 1)", n_min=2, entail=False, p5=[p5_and("MIN"), p5_and("MAX")],
    requires=["forall(k, 0, n, 0 <= domains[k, MIN] and domains[k, MAX] <= 1)"],
    loops={1: dict(index="i", fingerprint="for range(len(x))", invariant=[
        ("P1.same", "same_pre(domains)"),
        ("P2.cand0", "candidates_nb >= 0 and implies(candidates_nb == 0, forall(k, 0, i, domains[k, MIN] != 0))"),
        ("P2.cand1", "implies(candidates_nb >= 1, 0 <= candidate_idx and candidate_idx < i and domains[candidate_idx, MIN] == 0)"),
        ("P2.cand_unique", "implies(candidates_nb == 1, forall(k, 0, i, implies(k != candidate_idx, domains[k, MIN] != 0)))"),
        ("P5.cand_second", "implies(candidates_nb >= 2, exists(k, 0, i, k != candidate_idx and domains[k, MIN] == 0))"),
    ])},
    tags={"P1": ["C05"], "P2": ["C05"]})
