from nucsvc.propspec import propagator

propagator(REG, "nucs/propagators/max_leq_propagator.py::compute_domains_max_leq",
    rel="forall(k, 0, n - 1, @T[k] <= @T[n - 1])", n_min=2,
    loops={1: dict(index="i", fingerprint="for range(len(x))", invariant=[
        ("P1.min", "forall(k, 0, n, domains[k, MIN] == pre(domains)[k, MIN])"),
        ("P1.y", "domains[n - 1, MAX] == pre(domains)[n - 1, MAX]"),
        ("P2.done", "forall(k, 0, i, domains[k, MAX] == min(pre(domains)[k, MAX], domains[n - 1, MAX]) and domains[k, MIN] <= domains[k, MAX])"),
        ("P1.todo", "forall(k, i, n - 1, domains[k, MAX] == pre(domains)[k, MAX])"),
    ])},
    tags={"P1": ["C05"], "P2": ["C05"]})
