# BacktrackSolver entry points (worker side): C02/C03 loop structure, C11 one completion marker per worker, C17 solution count
import z3
from nucsvc.enginespec import *
from nucsvc.values import *

CP = "nucs/solvers/choice_points.py::"
BS = "nucs/solvers/backtrack_solver.py::"

INIT_ENS = [
    ("C03.top", "stacks_top[0] == 0"),
    ("C03.root", "forall(d, 0, D, shr_domains_stack[0, d, MIN] == shr_domains_arr[d, MIN] and shr_domains_stack[0, d, MAX] == shr_domains_arr[d, MAX])"),
    ("C07.flags", "forall(p, 0, P, not_entailed_propagators_stack[0, p])"),
    ("C03.records", "forall(l, 0, H, dom_update_stack[l, 0] == 0 and dom_update_stack[l, 1] == 0)"),
]
contract(CP + "cp_init", types={"shr_domains_stack": "i32[H,D,2]", "not_entailed_propagators_stack": "bool[H,P]", "dom_update_stack": "u16[H,2]",
                               "stacks_top": "u8[1]", "shr_domains_arr": "i64[D2,2]"}, result="none", props=["C03", "C07", "C16", "C19"],
    requires=["H >= 1", "D2 == D"], ensures=INIT_ENS,
    modifies=["shr_domains_stack", "not_entailed_propagators_stack", "dom_update_stack", "stacks_top"],
    tags={"C03": ["C03"], "C07": ["C07", "C03"]}, arities=[{"H": 2, "D": 2, "D2": 2, "P": 2}])

contract(BS + "reset", types={"problem": {"shr_domains_lst": "i64[D2,2]"}, "shr_domains_stack": "i32[H,D,2]", "not_entailed_propagators_stack": "bool[H,P]",
                             "dom_update_stack": "u16[H,2]", "stacks_top": "u8[1]", "triggered_propagators": "bool[P]"}, result="none", props=["C03", "C07", "C16"],
    requires=["H >= 1", "D2 == D"],
    ensures=[(l, c.replace("shr_domains_arr", "problem.shr_domains_lst")) for l, c in INIT_ENS] + [("C03.queue", "forall(p, 0, P, triggered_propagators[p])"), ("C03.problem", "same(problem.shr_domains_lst)")],
    modifies=["shr_domains_stack", "not_entailed_propagators_stack", "dom_update_stack", "stacks_top", "triggered_propagators"],
    tags={"C03": ["C03"], "C07": ["C07", "C03"]}, arities=[])

SELF_T = {
    "statistics": "i64[13]",
    "problem": {"algorithms": "u8[P]", "var_bounds": "u16[PB,2]", "param_bounds": "u16[PB,2]", "dom_indices_arr": "u16[V]", "dom_offsets_arr": "i32[V]",
                "props_dom_indices": "u16[NV]", "props_dom_offsets": "i32[NV,1]", "props_parameters": "i32[NP]", "triggers": "u8[D,P]", "shr_domains_lst": "i64[D2,2]"},
    "shr_domains_stack": "i32[H,D,2]", "not_entailed_propagators_stack": "bool[H,P]", "dom_update_stack": "u16[H,2]", "stacks_top": "u8[1]",
    "triggered_propagators": "bool[P]", "consistency_alg_idx": "int", "decision_domains": "u16[K]", "var_heuristic_idx": "int", "var_heuristic_params": "opaque",
    "dom_heuristic_idx": "int", "dom_heuristic_params": "opaque",
}


def selfify(clause):
    """rewrite a clause over solve_one's parameter names into one over self.*"""
    import re
    prob = ("algorithms", "var_bounds", "param_bounds", "dom_indices_arr", "dom_offsets_arr", "props_dom_indices", "props_dom_offsets", "props_parameters", "triggers")
    own = ("statistics", "shr_domains_stack", "not_entailed_propagators_stack", "dom_update_stack", "stacks_top", "triggered_propagators", "decision_domains")
    for n in prob:
        clause = re.sub(rf"(?<![\w.]){n}\b", f"self.problem.{n}", clause)
    for n in own:
        clause = re.sub(rf"(?<![\w.]){n}\b", f"self.{n}", clause)
    return clause


SO = REG.contracts[BS + "solve_one"]
SO_REQ = [(l, selfify(c)) for l, c, _t in SO.clauses("requires")]
LOOP_INV = [x for x in SO_REQ if x[0] not in dict(WF_STATIC) and x[0] != "C02.all_decision"]
# solve_one must re-establish what its callers need for the next call
SO.ensures = SO.ensures + [("wf.levels_nonempty_post", "implies(result is not None, forall(l, 0, stacks_top[0] + 1, forall(d, 0, D, shr_domains_stack[l, d, MIN] <= shr_domains_stack[l, d, MAX])))"),
                           ("wf.records_post", WF_DYN[3][1])]
SO.result = "opt:i64[V]"
for _v in ("#bc", "#sem"):
    REG.contracts[BS + "solve_one" + _v].ensures = REG.contracts[BS + "solve_one" + _v].ensures + SO.ensures[-2:]
    REG.contracts[BS + "solve_one" + _v].result = "opt:i64[V]"


def h_put(ex, st, node, args):
    """solution_queue.put((processor_idx, solution, statistics)): recorded in the ghost stream of this worker"""
    msg = args[0]
    lo = st.env["emitted"]
    n, t = st.heap[lo.id]
    st.heap[lo.id] = (n + 1, z3.Store(t, zint(n), z3.IntVal(1 if msg[1] is None else 0)))
    return None


def h_yield(ex, st, node, args):
    st.env["delivered"] = st.env["delivered"] + 1


SOLN = "STATS_IDX_SOLVER_SOLUTION_NB"
contract(BS + "BacktrackSolver.solve", types={"self": SELF_T}, result="none", props=["C02", "C17", "C16"],
    requires=SO_REQ, env={"yield": h_yield}, ghost_init={"delivered": 0}, ghost_calls={"solve_one": "searches"},
    loops={1: dict(fingerprint="while True", also_modifies=["delivered"], invariant=LOOP_INV + [
        ("C17.delivered", f"self.statistics[{SOLN}] - old(self.statistics)[{SOLN}] == delivered"),
        ("C02.searches", "searches == delivered"),
    ])},
    ensures=[("C17.delivered", f"self.statistics[{SOLN}] - old(self.statistics)[{SOLN}] == delivered"),
             ("C02.exhausted", "self.stacks_top[0] == 0"),
             ("C02.searches", "searches == delivered or searches == delivered + 1")],
    tags={"C17": ["C17"], "C02": ["C02"], "wf": ["C16"], "C01": ["C02"]}, arities=[])

STREAM_ENS = [
    ("C11.one_marker", "len(emitted) >= 1 and emitted[len(emitted) - 1] == 1"),
    ("C11.marker_last", "forall(i, 0, len(emitted) - 1, emitted[i] == 0)"),
]
contract(BS + "BacktrackSolver.solve_and_queue", types={"self": SELF_T, "processor_idx": "int", "solution_queue": "opaque"}, result="none", props=["C11", "C17", "C02"],
    requires=SO_REQ, env={"solution_queue.put": h_put}, ghost_init={"emitted": "emptylist"},
    loops={1: dict(fingerprint="while True", also_modifies=["emitted"], invariant=LOOP_INV + [
        ("C11.no_marker_yet", "forall(i, 0, len(emitted), emitted[i] == 0)"),
        ("C17.delivered", f"self.statistics[{SOLN}] - old(self.statistics)[{SOLN}] == len(emitted)"),
    ])},
    ensures=STREAM_ENS + [("C17.delivered", f"self.statistics[{SOLN}] - old(self.statistics)[{SOLN}] == len(emitted) - 1")],
    tags={"C11": ["C11"], "C17": ["C17"], "wf": ["C16"], "C02": ["C02"], "C01": ["C02"]}, arities=[])

# ------------------------------------------------------------------ optimisation loops (C03)
def best_cases(ex, st, tag):
    def none_case(s):
        s.env["best_solution"] = None

    def arr_case(s):
        obj = ArrObj("best_solution" + tag, "i64", [s.ghost_env["V"]])
        s.heap[obj.id] = obj.fresh_term()
        s.env["best_solution"] = Arr(obj)

    return [none_case, arr_case]


ROOT = "self.problem.shr_domains_lst"
OBJ_LO = f"({ROOT}[self.problem.dom_indices_arr[variable_idx], 0] + self.problem.dom_offsets_arr[variable_idx])"
OBJ_HI = f"({ROOT}[self.problem.dom_indices_arr[variable_idx], 1] + self.problem.dom_offsets_arr[variable_idx])"
S0 = "self.shr_domains_stack"
OBJ_D = "self.problem.dom_indices_arr[variable_idx]"
OPT_REQ = SO_REQ + [("C03.var", "0 <= variable_idx and variable_idx < V"), ("C03.fresh", "self.stacks_top[0] == 0"), ("wf.root", "D2 == D"),
                    ("C03.root_is_level0", f"forall(d, 0, D, {S0}[0, d, MIN] == {ROOT}[d, 0] and {S0}[0, d, MAX] == {ROOT}[d, 1])"),
                    ("C03.i32", f"forall(d, 0, D, -2147483648 <= {ROOT}[d, 0] and {ROOT}[d, 1] <= 2147483647)")]

for variant, updater, bound, other, better, measure in (
        ("min", "nucs/solvers/solver.py::decrease_max", "MAX", "MIN", "<", f"best_solution[variable_idx] - {OBJ_LO}"),
        ("max", "nucs/solvers/solver.py::increase_min", "MIN", "MAX", ">", f"{OBJ_HI} - best_solution[variable_idx]")):
    OPT_INV = LOOP_INV + [
        ("C03.top0", "self.stacks_top[0] == 0"),
        ("C03.problem", f"same({ROOT})"),
        ("C03.others", f"forall(d, 0, D, implies(d != {OBJ_D}, {S0}[0, d, MIN] == {ROOT}[d, 0] and {S0}[0, d, MAX] == {ROOT}[d, 1]))"),
        ("C03.first", f"implies(best_solution is None, {S0}[0, {OBJ_D}, MIN] == {ROOT}[{OBJ_D}, 0] and {S0}[0, {OBJ_D}, MAX] == {ROOT}[{OBJ_D}, 1])"),
        ("C03.tightened", f"implies(best_solution is not None, {S0}[0, {OBJ_D}, {bound}] + self.problem.dom_offsets_arr[variable_idx] == best_solution[variable_idx] {'- 1' if bound == 'MAX' else '+ 1'} and {S0}[0, {OBJ_D}, {other}] == {ROOT}[{OBJ_D}, {0 if other == 'MIN' else 1}])"),
        ("C03.best_in_domain", f"implies(best_solution is not None, {OBJ_LO} <= best_solution[variable_idx] and best_solution[variable_idx] <= {OBJ_HI})"),
    ]
    for fn, extra_types, env, ginit, extra_inv, extra_ens in (
        ("optimize", {}, {}, {}, [], []),
        ("optimize_and_queue", {"processor_idx": "int", "solution_queue": "opaque"}, {"solution_queue.put": h_put}, {"emitted": "emptylist"},
         [("C11.no_marker_yet", "forall(i, 0, len(emitted), emitted[i] == 0)")], STREAM_ENS),
    ):
        is_q = fn.endswith("queue")
        types = {"self": SELF_T, "variable_idx": "int", "update_domain_fct": "opaque"}
        types.update(extra_types)
        lc = dict(also_modifies=["emitted"] if is_q else [], invariant=OPT_INV + extra_inv)
        if not is_q:
            lc["var_types"] = {"best_solution": best_cases}
            lc["fingerprint"] = None
            lc["decreases"] = f"ite(best_solution is None, {OBJ_HI} - {OBJ_LO} + 1, {measure})"
        inv = list(lc["invariant"])
        if is_q:
            # optimize_and_queue has no best_solution variable: the last solution found plays its role through the tightened bound only
            inv = [c for c in inv if "best_solution" not in c[1]] + [("C03.bound_inside", f"{ROOT}[{OBJ_D}, 0] <= {S0}[0, {OBJ_D}, MIN] and {S0}[0, {OBJ_D}, MAX] <= {ROOT}[{OBJ_D}, 1]")]
        lc["invariant"] = inv
        lc = {k: v for k, v in lc.items() if v is not None}
        contract(BS + "BacktrackSolver." + fn, variant=variant, types=types, result="none", props=["C03", "C11", "C16", "C04", "C13"],
            requires=OPT_REQ, env=env, ghost_init=ginit, calls={"update_domain_fct": updater},
            loops={1: lc},
            ensures=([("C03.result_in_domain", f"implies(result is not None, {OBJ_LO} <= result[variable_idx] and result[variable_idx] <= {OBJ_HI})"),
                      ("C03.problem", f"same({ROOT})")] if not is_q else []) + extra_ens,
            tags={"C03": ["C03"], "C11": ["C11", "C03"], "wf": ["C16"], "C01": ["C03"], "C02": ["C03"], "C17": ["C03"]}, arities=[])

# ------------------------------------------------------------------ optimality (C03) through the semantic search contract solve_one#sem
IN_ROOT = f"forall(d, 0, D, {ROOT}[d, 0] <= sigma[d] and sigma[d] <= {ROOT}[d, 1])"
SIG_OBJ = f"(sigma[{OBJ_D}] + self.problem.dom_offsets_arr[variable_idx])"
for variant, updater, bound, other, cmp in (("min", "nucs/solvers/solver.py::decrease_max", "MAX", "MIN", ">="), ("max", "nucs/solvers/solver.py::increase_min", "MIN", "MAX", "<=")):
    base = REG.contracts[BS + "BacktrackSolver.optimize#" + variant]
    lc = dict(base.loops[1])
    better = "<" if variant == "min" else ">"
    lc["invariant"] = list(lc["invariant"]) + [
        # every solution of the problem that is strictly better than the incumbent (any solution, if there is none yet) is in the current root box
        ("C03.better_in_root", f"implies(sol() and {IN_ROOT} and (best_solution is None or {SIG_OBJ} {better} best_solution[variable_idx]), in_box({S0}, 0))"),
    ]
    contract(BS + "BacktrackSolver.optimize", variant=variant + "sem", types=base.types, result="none", props=["C03"],
        requires=base.requires, ghost={"sigma": "int[D]"},
        calls={"update_domain_fct": updater, "solve_one": BS + "solve_one#sem"}, call_ghosts={"solve_one": {"sigma": "sigma", "lv0": "0"}},
        loops={1: lc},
        ensures=[
            ("C03.none_iff_infeasible", f"implies(result is None, not (sol() and {IN_ROOT}))"),
            ("C03.optimal", f"implies(result is not None and sol() and {IN_ROOT}, {SIG_OBJ} {cmp} result[variable_idx])"),
        ],
        tags={"C03": ["C03"], "wf": ["C16"], "C01": ["C03"], "C02": ["C03"], "C17": ["C03"]}, arities=[], timeout_ms=200000)

# ------------------------------------------------------------------ acceptance (C01) through solve_one#acc: what is delivered satisfies every posted relation
SOA = REG.contracts[BS + "solve_one#acc"]
SOA.ensures = SOA.ensures + SO.ensures[-2:]
SOA.result = "opt:i64[V]"
SOA_REQ = [(l, selfify(c)) for l, c, _t in SOA.clauses("requires")]
ACC_LOOP_INV = [x for x in SOA_REQ if x[0] not in dict(WF_STATIC) and x[0] not in ("C02.all_decision", "C01.fullmask")]
ON_STACK_POINT = "forall(d, 0, D, trig(d) == d and sigma[d] == self.shr_domains_stack[self.stacks_top[0], d, MIN])"
ALL_HOLD = "forall(p, 0, P, rel_holds(p))"


def h_yield_acc(ex, st, node, args):
    """yield solution: the delivered assignment is the point of the top level; if sigma is that point every posted relation holds on it"""
    st.env["delivered"] = st.env["delivered"] + 1
    ex.oblige(st, "assert", "C01.delivered_satisfies", ex.eval_spec(selfify(f"implies({ON_STACK_POINT}, {ALL_HOLD})"), st, {}), tags={"C01"}, line=node.lineno)


def h_put_acc(ex, st, node, args):
    h_put(ex, st, node, args)
    if args[0][1] is not None:
        ex.oblige(st, "assert", "C01.delivered_satisfies", ex.eval_spec(selfify(f"implies({ON_STACK_POINT}, {ALL_HOLD})"), st, {}), tags={"C01"}, line=node.lineno)


for fn, types, env, ginit, am in (("solve", {"self": SELF_T}, {"yield": h_yield_acc}, {"delivered": 0}, ["delivered"]),
                                  ("solve_and_queue", {"self": SELF_T, "processor_idx": "int", "solution_queue": "opaque"}, {"solution_queue.put": h_put_acc}, {"emitted": "emptylist"}, ["emitted"])):
    contract(BS + "BacktrackSolver." + fn, variant="acc", types=types, result="none", props=["C01"],
        requires=SOA_REQ, env=env, ghost_init=ginit, ghost={"sigma": "int[D]"}, defs=[selfify(V_DEF)],
        calls={"solve_one": BS + "solve_one#acc"}, call_ghosts={"solve_one": {"sigma": "sigma", "lv0": "0"}},
        loops={1: dict(fingerprint="while True", also_modifies=am, invariant=ACC_LOOP_INV)},
        ensures=[], tags={"C01": ["C01"], "wf": ["C16"], "C02": ["C01"], "C17": ["C01"]}, arities=[], timeout_ms=200000)

COVERED = ("wf.covered", "forall(d, 0, D, exists(v, 0, V, self.problem.dom_indices_arr[v] == trig(d)))")  # every shared domain is the domain of some variable
IS_ASSIGNMENT = lambda x: f"forall(v, 0, V, {x}[v] == sigma[self.problem.dom_indices_arr[v]] + self.problem.dom_offsets_arr[v])"
for variant, updater in (("min", "nucs/solvers/solver.py::decrease_max"), ("max", "nucs/solvers/solver.py::increase_min")):
    base = REG.contracts[BS + "BacktrackSolver.optimize#" + variant]
    lc = dict(base.loops[1])
    lc["invariant"] = list(lc["invariant"]) + [x for x in ACC_LOOP_INV if x[0].startswith("C01.")] + [
        ("C01.best_satisfies", f"implies(best_solution is not None and {IS_ASSIGNMENT('best_solution')}, {ALL_HOLD})")]
    lc.pop("decreases", None)
    contract(BS + "BacktrackSolver.optimize", variant=variant + "acc", types=base.types, result="none", props=["C01"],
        requires=list(base.requires) + [x for x in SOA_REQ if x[0].startswith("C01.")] + [COVERED], ghost={"sigma": "int[D]"}, defs=[selfify(V_DEF)],
        calls={"update_domain_fct": updater, "solve_one": BS + "solve_one#acc"}, call_ghosts={"solve_one": {"sigma": "sigma", "lv0": "0"}},
        loops={1: lc},
        ensures=[("C01.optimum_satisfies", f"implies(result is not None and {IS_ASSIGNMENT('result')}, {ALL_HOLD})")],
        tags={"C01": ["C01"], "C03": ["C01"], "wf": ["C16"], "C02": ["C01"], "C17": ["C01"]}, arities=[], timeout_ms=200000)

# ------------------------------------------------------------------ exactly once (C02) through solve_one#enum, partial correctness (termination of the search is not proved)
SOE = REG.contracts[BS + "solve_one#enum"]
SOE.ensures = SOE.ensures + SO.ensures[-2:]
SOE.result = "opt:i64[V]"
SOE_REQ = [(l, selfify(c)) for l, c, _t in SOE.clauses("requires")]
STK, TOPV, UPD = "self.shr_domains_stack", "self.stacks_top[0]", "self.dom_update_stack"
IN_STACK0 = f"0 <= lv0 and lv0 <= old(self.stacks_top)[0] and in_box(old({STK}), lv0)"
DELIVERED_NOW = f"(trig({TOPV}) == {TOPV} and in_box({STK}, {TOPV}))"  # the top level is a point when it is delivered: sigma is in it iff sigma is what is delivered


def h_yield_enum(ex, st, node, args):
    st.env["delivered"] = st.env["delivered"] + 1
    now = truth(ex.eval_spec(DELIVERED_NOW, st, {}))
    ex.oblige(st, "assert", "C02.at_most_once", ex.eval_spec(f"implies({DELIVERED_NOW}, not seen)", st, {}), tags={"C02"}, line=node.lineno)
    st.env["seen"] = b_or(truth(st.env["seen"]), now)


contract(BS + "BacktrackSolver.solve", variant="enum", types={"self": SELF_T}, result="none", props=["C02"],
    requires=SOE_REQ, env={"yield": h_yield_enum}, ghost={"sigma": "int[D]", "lv0": "int"}, ghost_init={"delivered": 0, "seen": False, "lv": "@lv0"},
    calls={"solve_one": BS + "solve_one#enum"}, call_ghosts={"solve_one": {"sigma": "sigma", "lv0": "lv"}}, ghost_out={"solve_one": {"lv": "lv"}},
    loops={1: dict(fingerprint="while True", also_modifies=["delivered", "seen", "lv"], step_ensures=[
        # after the pop: what was just delivered is separated from every remaining level on that level's recorded split domain (C02.disjoint)
        ("C02.separated", f"implies(in_box({STK}, {TOPV} + 1), forall(l, 0, {TOPV} + 1, trig(l) == l and (sigma[{UPD}[l, 0]] < {STK}[l, {UPD}[l, 0], MIN] or sigma[{UPD}[l, 0]] > {STK}[l, {UPD}[l, 0], MAX])))"),
    ], invariant=LOOP_INV + [
        ("C02.pending", f"implies(sol() and {IN_STACK0} and not seen, 0 <= lv and lv <= {TOPV} and in_box({STK}, lv))"),
        ("C02.never_again", f"implies(seen, absent({STK}, {TOPV}))"),
    ])},
    ensures=[("C02.all_delivered", f"implies(sol() and {IN_STACK0}, seen)")],
    tags={"C02": ["C02"], "wf": ["C16"], "C01": ["C02"], "C17": ["C02"]}, arities=[], timeout_ms=200000)


def h_put_enum(ex, st, node, args):
    """the worker side: a queued solution is a delivery (same obligation as at the yield of solve); the final marker is not"""
    h_put(ex, st, node, args)
    if args[0][1] is not None:
        now = truth(ex.eval_spec(DELIVERED_NOW, st, {}))
        ex.oblige(st, "assert", "C02.at_most_once", ex.eval_spec(f"implies({DELIVERED_NOW}, not seen)", st, {}), tags={"C02"}, line=node.lineno)
        st.env["seen"] = b_or(truth(st.env["seen"]), now)


_se = REG.contracts[BS + "BacktrackSolver.solve#enum"]
contract(BS + "BacktrackSolver.solve_and_queue", variant="enum", types={"self": SELF_T, "processor_idx": "int", "solution_queue": "opaque"}, result="none", props=["C02"],
    requires=SOE_REQ, env={"solution_queue.put": h_put_enum}, ghost=_se.ghost, ghost_init={"emitted": "emptylist", "seen": False, "lv": "@lv0"},
    calls=_se.calls, call_ghosts=_se.extra["call_ghosts"], ghost_out=_se.extra["ghost_out"],
    loops={1: dict(_se.loops[1], also_modifies=["emitted", "seen", "lv"])},
    ensures=list(_se.ensures), tags=_se.tags, arities=[], timeout_ms=200000)

# ------------------------------------------------------------------ fixpoint layer (C08) at the enumeration level: the state handed back to solve_one after a delivery + pop satisfies its precondition again
SOF = REG.contracts[BS + "solve_one#fix"]
SOF.ensures = SOF.ensures + SO.ensures[-2:]
SOF.result = "opt:i64[V]"
SOF_REQ = [(l, selfify(c)) for l, c, _t in SOF.clauses("requires")]
FIX_LOOP_INV = [x for x in SOF_REQ if x[0] not in dict(WF_STATIC) and x[0] not in ("C02.all_decision", "C08.noalias", "C08.affine_eq_full")]
for fn, types, env, ginit, am in (("solve", {"self": SELF_T}, {"yield": h_yield}, {"delivered": 0}, ["delivered"]),
                                  ("solve_and_queue", {"self": SELF_T, "processor_idx": "int", "solution_queue": "opaque"}, {"solution_queue.put": h_put}, {"emitted": "emptylist"}, ["emitted"])):
    contract(BS + "BacktrackSolver." + fn, variant="fix", types=types, result="none", props=["C08"],
        requires=SOF_REQ, env=env, ghost_init=ginit, ghost={"sigma": "int[D]"},
        calls={"solve_one": BS + "solve_one#fix"}, call_ghosts={"solve_one": {"sigma": "sigma", "lv0": "0"}},
        loops={1: dict(fingerprint="while True", also_modifies=am, invariant=FIX_LOOP_INV)},
        ensures=[], tags={"C08": ["C08"], "wf": ["C16"], "C02": ["C08"], "C17": ["C08"], "C01": ["C08"]}, arities=[], timeout_ms=200000)

# ------------------------------------------------------------------ acceptance for arbitrary wake-up masks (solve_one#accp): same delivery obligations as the #acc family
SOP = REG.contracts[BS + "solve_one#accp"]
SOP.ensures = SOP.ensures + SO.ensures[-2:]
SOP.result = "opt:i64[V]"
SOP_REQ = [(l, selfify(c)) for l, c, _t in SOP.clauses("requires")]
ACCP_STATE = [x for x in SOP_REQ if x[0].startswith("C08.K") or x[0].startswith("C01.JL")]
ACCP_LOOP_INV = [x for x in SOP_REQ if x[0] not in dict(WF_STATIC) and x[0] not in ("C02.all_decision", "C08.noalias", "C08.affine_eq_full")]
for fn, types, env, ginit, am in (("solve", {"self": SELF_T}, {"yield": h_yield_acc}, {"delivered": 0}, ["delivered"]),
                                  ("solve_and_queue", {"self": SELF_T, "processor_idx": "int", "solution_queue": "opaque"}, {"solution_queue.put": h_put_acc}, {"emitted": "emptylist"}, ["emitted"])):
    contract(BS + "BacktrackSolver." + fn, variant="accp", types=types, result="none", props=["C01"],
        requires=SOP_REQ, env=env, ghost_init=ginit, ghost={"sigma": "int[D]"}, defs=[selfify(V_DEF)],
        calls={"solve_one": BS + "solve_one#accp"}, call_ghosts={"solve_one": {"sigma": "sigma", "lv0": "0"}},
        loops={1: dict(fingerprint="while True", also_modifies=am, invariant=ACCP_LOOP_INV)},
        ensures=[], tags={"C01": ["C01"], "C08": ["C01"], "wf": ["C16"], "C02": ["C01"], "C17": ["C01"]}, arities=[], timeout_ms=200000)
for variant, updater in (("min", "nucs/solvers/solver.py::decrease_max"), ("max", "nucs/solvers/solver.py::increase_min")):
    base = REG.contracts[BS + "BacktrackSolver.optimize#" + variant]
    lc = dict(base.loops[1])
    lc["invariant"] = list(lc["invariant"]) + ACCP_STATE + [
        ("C01.best_satisfies", f"implies(best_solution is not None and {IS_ASSIGNMENT('best_solution')}, {ALL_HOLD})")]
    lc.pop("decreases", None)
    contract(BS + "BacktrackSolver.optimize", variant=variant + "accp", types=base.types, result="none", props=["C01"],
        requires=list(base.requires) + [x for x in SOP_REQ if x[0] in ("C08.noalias", "C08.affine_eq_full")] + ACCP_STATE + [COVERED], ghost={"sigma": "int[D]"}, defs=[selfify(V_DEF)],
        calls={"update_domain_fct": updater, "solve_one": BS + "solve_one#accp"}, call_ghosts={"solve_one": {"sigma": "sigma", "lv0": "0"}},
        loops={1: lc},
        ensures=[("C01.optimum_satisfies", f"implies(result is not None and {IS_ASSIGNMENT('result')}, {ALL_HOLD})")],
        tags={"C01": ["C01"], "C08": ["C01"], "C03": ["C01"], "wf": ["C16"], "C02": ["C01"], "C17": ["C01"]}, arities=[], timeout_ms=200000)
