from nucsvc.enginespec import *

interface("Propagator", types=PROP_IFACE_T, requires=PROP_IFACE_REQ, ensures=PROP_IFACE_ENS + [PROP_IFACE_SOL] + PROP_IFACE_ACC, modifies=["domains"])

F, E, I, NC, BC = "STATS_IDX_PROPAGATOR_FILTER_NB", "STATS_IDX_PROPAGATOR_ENTAILMENT_NB", "STATS_IDX_PROPAGATOR_INCONSISTENCY_NB", "STATS_IDX_PROPAGATOR_FILTER_NO_CHANGE_NB", "STATS_IDX_ALG_BC_NB"
OTHER_STATS = f"forall(k, 0, 13, implies(k != {F} and k != {E} and k != {I} and k != {NC} and k != {BC}, statistics[k] == old(statistics)[k]))"
STATS_INV = [
    ("C17.bc", f"{dstat(BC)} == 1"),
    ("C17.filter", f"{dstat(F)} == calls"),
    ("C17.noincons", f"{dstat(I)} == 0"),
    ("C17.outcomes", f"0 <= {dstat(E)} and 0 <= {dstat(NC)} and {dstat(E)} <= calls and {dstat(NC)} <= calls"),
    ("C17.others", OTHER_STATS),
]
SIZE = lambda S: f"({S}[top, d, MAX] - {S}[top, d, MIN])"
QUEUED = lambda T: f"ite({T}[p], 1, 0)"
OUTER = [
    ("C08.top", "top == stacks_top[0] and same(stacks_top)"),
    ("C08.levels", f"forall(l, 0, H, implies(l != top, lvl_same({SS}, {SS0}, l, D)))"),
    ("C08.shrink", f"forall(d, 0, D, {SS0}[top, d, MIN] <= {SS}[top, d, MIN] and {SS}[top, d, MIN] <= {SS}[top, d, MAX] and {SS}[top, d, MAX] <= {SS0}[top, d, MAX])"),
    ("C07.flag_levels", f"forall(l, 0, H, implies(l != top, forall(p, 0, P, {NEs}[l, p] == {NE0}[l, p])))"),
    ("C07.flags_only_cleared", f"forall(p, 0, P, implies({NEs}[top, p], {NE0}[top, p]))"),
    ("C16.prop_idx", "-1 <= prop_idx and prop_idx < P"),
    ("C02.sol", f"implies(sol() and in_box({SS0}, top), in_box({SS}, top))"),
] + STATS_INV
INNER = [
    ("C08.levels", f"forall(l, 0, H, implies(l != top, lvl_same({SS}, pre({SS}), l, D)))"),
    ("C08.shrink", f"forall(d, 0, D, pre({SS})[top, d, MIN] <= {SS}[top, d, MIN] and {SS}[top, d, MIN] <= {SS}[top, d, MAX] and {SS}[top, d, MAX] <= pre({SS})[top, d, MAX])"),
    ("C17.frame", "same_pre(statistics)"),
    ("C02.sol", f"implies(sol() and in_box(pre({SS}), top), in_box({SS}, top))"),
    ("C17.nochange", "implies(not shr_domains_changes, same_pre(shr_domains_stack))"),
]

contract("nucs/solvers/bound_consistency_algorithm.py::bound_consistency_algorithm", types=ENGINE_T,
    props=["C01", "C02", "C03", "C04", "C05", "C07", "C08", "C10", "C16", "C17", "C13", "C19"],
    requires=WF_STATIC + WF_DYN, calls={"compute_domains_fct": "iface:Propagator"}, ghost_calls={"compute_domains_fct": "calls"},
    ghost={"sigma": "int[D]"}, defs=[V_DEF, SOL_DEF], call_ghosts={"compute_domains_fct": {"pidx": "prop_idx", "tvec": "tv(prop_idx)"}},
    modifies=["statistics", "shr_domains_stack", "not_entailed_propagators_stack", "triggered_propagators"],
    ghost_init={"dch": 0},
    loops={1: dict(fingerprint="while True", invariant=OUTER, also_modifies=["dch"],
                   # C04: lexicographic measure (total size of the current box, number of queued propagators)
                   decreases=[f"sum(d, 0, D, {SIZE(SS)})", f"sum(p, 0, P, {QUEUED('triggered_propagators')})"],
                   hints=[f"lemma_sum_zero(d, 0, D, {SIZE(SS)})", f"lemma_sum_zero(p, 0, P, {QUEUED('triggered_propagators')})"],
                   step_hints=[f"lemma_sum_le(d, 0, D, {SIZE(SS)}, {SIZE('it0(' + SS + ')')})",
                               f"lemma_sum_le(d, 0, D, {SIZE('it0(' + SS + ')')}, {SIZE(SS)})",
                               f"lemma_sum_le(p, 0, P, {QUEUED('triggered_propagators')}, {QUEUED('it0(triggered_propagators)')})"],
                   step_ensures=[
                       ("C04.shrunk", f"forall(d, 0, D, it0({SS})[top, d, MIN] <= {SS}[top, d, MIN] and {SS}[top, d, MAX] <= it0({SS})[top, d, MAX] and {SS}[top, d, MIN] <= {SS}[top, d, MAX])"),
                       ("C04.strict", f"implies(shr_domains_changes, 0 <= dch and dch < D and {SS}[top, dch, MAX] - {SS}[top, dch, MIN] < it0({SS})[top, dch, MAX] - it0({SS})[top, dch, MIN])"),
                       ("C04.popped", "implies(not shr_domains_changes, 0 <= prop_idx and prop_idx < P and it0(triggered_propagators)[prop_idx] and not triggered_propagators[prop_idx] and forall(p, 0, P, implies(triggered_propagators[p], it0(triggered_propagators)[p])))"),
                   ]),
           2: dict(index="v", fingerprint="for range(prop_var_end - prop_var_start)", also_modifies=["dch"],
                   ghost_updates={"dch": "ite(events != 0, shr_domain_idx, dch)"},
                   invariant=INNER + [("C04.queue_same", "implies(not shr_domains_changes, same_pre(triggered_propagators))"), ("C04.changed", f"implies(shr_domains_changes, 0 <= dch and dch < D and {SS}[top, dch, MAX] - {SS}[top, dch, MIN] < pre({SS})[top, dch, MAX] - pre({SS})[top, dch, MIN])")]),
           3: dict(index="w", fingerprint="for range(prop_var_end - prop_var_start)", invariant=[("C16.prop_idx", "-1 <= prop_idx and prop_idx < P")])},
    ensures=CA_FRAME + [CA_SHRINK, CA_STATUS, CA_BOUND, CA_UNBOUND, CA_PRESERVE,
        ("C17.bc", f"{dstat(BC)} == 1"),
        ("C17.filter", f"{dstat(F)} == calls"),
        ("C17.incons", f"{dstat(I)} == ite(result == PROBLEM_INCONSISTENT, 1, 0)"),
        ("C17.outcomes", f"0 <= {dstat(E)} and 0 <= {dstat(NC)} and {dstat(E)} <= calls and {dstat(NC)} + {dstat(I)} <= calls"),
        ("C17.others", OTHER_STATS)],
    tags={"C08": ["C08"], "C07": ["C07"], "C01": ["C01", "C02"], "C02": ["C02", "C05", "C10", "C03"], "C04": ["C04"], "C17": ["C17"], "wf": ["C16"]},
    arities=[])  # unroll mode is impractical for the engine loops (nested while/for with symbolic state): failures are reported against the baseline


# ------------------------------------------------------------------ acceptance variant (C01 composition for full-mask constraints)
BASE = REG.contracts["nucs/solvers/bound_consistency_algorithm.py::bound_consistency_algorithm"]
SOLVER_STATS_SAME_BC = "forall(k, 0, 13, implies(k == STATS_IDX_SOLVER_CHOICE_NB or k == STATS_IDX_SOLVER_CHOICE_DEPTH or k == STATS_IDX_SOLVER_SOLUTION_NB, statistics[k] == old(statistics)[k]))"
ACC_OUTER = [
    ("C01.K", ACC_K(SS, "triggered_propagators", "prop_idx")),
    ("C01.J", ACC_J(SS)),
]
OUTN = lambda k, b: f"(prop_domains[{k}, {b}] - prop_offsets[{k}, 0])"
ACC_INNER = [
    ("C01.K_others", f"forall(p, 0, P, implies(p != q0 and {NEs}[top, p] and onpoint({SS}, top, p) and not triggered_propagators[p], rel_holds(p)))"),
    ("C01.J_others", f"forall(p, 0, P, implies(p != q0 and not {NEs}[top, p] and in_box({SS}, top), rel_holds(p)))"),
    ("C01.J_q0", f"implies(status != PROP_ENTAILMENT and not {NEs}[top, q0] and in_box(pre({SS}), top), rel_holds(q0))"),
    ("C01.store_in_out", f"forall(k, 0, v, {OUTN('k', 'MIN')} <= {SS}[top, prop_indices[k], MIN] and {SS}[top, prop_indices[k], MAX] <= {OUTN('k', 'MAX')})"),
    ("C01.queued_if_changed", f"implies(shr_domains_changes and {NEs}[top, q0], triggered_propagators[q0])"),
    ("C01.q0", "prop_idx == q0 and 0 <= q0 and q0 < P"),
]
ACC_THIRD = [
    ("C01.K_others", f"forall(p, 0, P, implies(p != q0 and {NEs}[top, p] and onpoint({SS}, top, p) and not triggered_propagators[p], rel_holds(p)))"),
    ("C01.same", f"same_pre({SS}) and same_pre(triggered_propagators) and same_pre({NEs})"),
    ("C01.last", f"(prop_idx == q0 or prop_idx == -1) and 0 <= q0 and q0 < P"),
    ("C01.eq_so_far", f"implies(prop_idx == q0, forall(k, 0, w, {SS}[top, prop_indices[k], MIN] == {OUTN('k', 'MIN')} and {SS}[top, prop_indices[k], MAX] == {OUTN('k', 'MAX')}))"),
]
lo1 = dict(BASE.loops[1]); lo1["invariant"] = list(lo1["invariant"]) + ACC_OUTER
lo2 = dict(BASE.loops[2]); lo2["invariant"] = list(lo2["invariant"]) + ACC_INNER
lo3 = dict(BASE.loops[3]); lo3["invariant"] = list(lo3["invariant"]) + ACC_THIRD
for _d in (lo1,):
    _d.pop("decreases", None); _d.pop("step_hints", None); _d.pop("hints", None); _d.pop("step_ensures", None)
contract("nucs/solvers/bound_consistency_algorithm.py::bound_consistency_algorithm", variant="acc", types=ENGINE_T, props=["C01"],
    requires=list(BASE.requires) + ACC_REQ,
    calls=BASE.calls, ghost_calls=BASE.extra["ghost_calls"], ghost=BASE.ghost, defs=BASE.extra["defs"], call_ghosts=BASE.extra["call_ghosts"],
    ghost_results={"pop_propagator": "q0"}, ghost_init={"dch": 0},
    modifies=BASE.modifies, loops={1: lo1, 2: lo2, 3: lo3},
    # everything the acceptance interface (ConsistencyAlgAcc, engine_search.py) promises, literally, plus BC's stronger frame
    ensures=CA_FRAME + CA_FRAME_IFACE + [CA_SHRINK, CA_STATUS, CA_BOUND, CA_UNBOUND, ("C17.others", OTHER_STATS), ("C17.solver_stats", SOLVER_STATS_SAME_BC)] + ACC_ENS,
    tags={"C01": ["C01"]}, arities=[], timeout_ms=200000)


# ------------------------------------------------------------------ fixpoint variant (C08): the pass ends at a common fixpoint of the enabled constraints
# Fix(p, l, S) is uninterpreted; what the engine is checked for is its queue discipline, under two trusted axiom schemas (00_spec.py):
# A-FIX-ADEQ (an unwatched change of one domain keeps a fixpoint) and A-FIX-RAN (a constraint that ran and sees its own output is at a fixpoint
# if nothing changed or it is idempotent). Hypotheses: no constraint has one shared domain at two positions; the linear equality watches MIN|MAX.
NPOS = "(prop_var_end - prop_var_start)"
EQ_ALL = lambda n: f"forall(k, 0, {n}, {SS}[top, prop_indices[k], MIN] == {OUTN('k', 'MIN')} and {SS}[top, prop_indices[k], MAX] == {OUTN('k', 'MAX')})"
FIX_OUTER = [("C08.K", FIX_K(SS, "triggered_propagators", "prop_idx"))]
FIX_OTHERS = ("C08.K_others", f"forall(p, 0, P, implies(p != q0 and {NEs}[top, p] and not triggered_propagators[p], fixp({SS}, top, p)))")
FIX_INNER = [
    FIX_OTHERS,
    ("C08.eq_done", EQ_ALL("v")),
    ("C08.untouched", f"forall(k, v, {NPOS}, {SS}[top, prop_indices[k], MIN] == pre({SS})[top, prop_indices[k], MIN] and {SS}[top, prop_indices[k], MAX] == pre({SS})[top, prop_indices[k], MAX])"),
    ("C08.queued_if_changed", f"implies(shr_domains_changes and {NEs}[top, q0] and fullmask(q0), triggered_propagators[q0])"),
    ("C08.q0", "prop_idx == q0 and 0 <= q0 and q0 < P"),
]
FIX_THIRD = [
    FIX_OTHERS,
    ("C08.same", f"same_pre({SS}) and same_pre(triggered_propagators) and same_pre({NEs})"),
    ("C08.last", "((prop_idx == q0 and algorithms[q0] != ALG_AFFINE_EQ) or (prop_idx == -1 and algorithms[q0] == ALG_AFFINE_EQ)) and 0 <= q0 and q0 < P"),
    ("C08.eq_all", EQ_ALL(NPOS)),
]
RAN_OK = (f"status != PROP_INCONSISTENCY and prop_idx == q0 and {EQ_ALL(NPOS)} and (not shr_domains_changes or algorithms[q0] != ALG_AFFINE_EQ)")
# J (a disabled constraint holds on every point of the box) does not depend on the wake-up masks: carried here too, so that with the bridge axiom A-FIX-ACC
# the acceptance theorem (C01) holds for arbitrary masks under the hypotheses of the fixpoint layer
J_OUTER = [c for c in ACC_OUTER if c[0] == "C01.J"]
J_INNER = [c for c in ACC_INNER if c[0] in ("C01.J_others", "C01.J_q0", "C01.store_in_out")]
fl1 = dict(BASE.loops[1]); fl1["invariant"] = list(fl1["invariant"]) + FIX_OUTER
fl2 = dict(BASE.loops[2]); fl2["invariant"] = list(fl2["invariant"]) + FIX_INNER
fl3 = dict(BASE.loops[3]); fl3["invariant"] = list(fl3["invariant"]) + FIX_THIRD
for _k in ("decreases", "step_hints", "hints", "step_ensures"):
    fl1.pop(_k, None)
fl1["step_hints"] = [f"axiom_fix_ran({RAN_OK}, {SS}, top, q0)"]
fl2["step_hints"] = [f"axiom_fix_frame(it0({SS}), top, {SS}, top, shr_domain_idx, events)"]
contract("nucs/solvers/bound_consistency_algorithm.py::bound_consistency_algorithm", variant="fix", types=ENGINE_T, props=["C08", "C01", "C02"],
    requires=list(BASE.requires) + FIX_REQ,
    calls=BASE.calls, ghost_calls=BASE.extra["ghost_calls"], ghost=BASE.ghost, defs=BASE.extra["defs"], call_ghosts=BASE.extra["call_ghosts"],
    ghost_results={"pop_propagator": "q0"}, ghost_init={"dch": 0},
    modifies=BASE.modifies, loops={1: fl1, 2: fl2, 3: fl3},
    ensures=CA_FRAME + CA_FRAME_IFACE + [CA_SHRINK, CA_STATUS, CA_BOUND, CA_UNBOUND, ("C17.others", OTHER_STATS), ("C17.solver_stats", SOLVER_STATS_SAME_BC)] + FIX_ENS,
    # a missed wake-up under partial masks also lets a non-solution through (C01, C02): the acceptance variant above only covers full masks
    tags={"C08": ["C08", "C01", "C02"]}, arities=[], timeout_ms=200000)


# ------------------------------------------------------------------ J alone (no hypothesis on the wake-up masks): a disabled constraint holds on every point of the box.
# Together with #fix (same function, conjunction of two verified contracts) this implements the interface ConsistencyAlgFixJ used for acceptance under arbitrary masks.
jl1 = dict(BASE.loops[1]); jl1["invariant"] = list(jl1["invariant"]) + J_OUTER
jl2 = dict(BASE.loops[2]); jl2["invariant"] = list(jl2["invariant"]) + J_INNER + [("C01.q0", "prop_idx == q0 and 0 <= q0 and q0 < P")]
jl3 = dict(BASE.loops[3])
for _k in ("decreases", "step_hints", "hints", "step_ensures"):
    jl1.pop(_k, None)
contract("nucs/solvers/bound_consistency_algorithm.py::bound_consistency_algorithm", variant="j", types=ENGINE_T, props=["C01", "C07"],
    requires=list(BASE.requires) + [("C01.J0", ACC_J(SS))],
    calls=BASE.calls, ghost_calls=BASE.extra["ghost_calls"], ghost=BASE.ghost, defs=BASE.extra["defs"], call_ghosts=BASE.extra["call_ghosts"],
    ghost_results={"pop_propagator": "q0"}, ghost_init={"dch": 0},
    modifies=BASE.modifies, loops={1: jl1, 2: jl2, 3: jl3},
    ensures=CA_FRAME + CA_FRAME_IFACE + [CA_SHRINK, CA_STATUS, CA_BOUND, CA_UNBOUND, ("C17.others", OTHER_STATS), ("C17.solver_stats", SOLVER_STATS_SAME_BC)] + [ACC_ENS[1]],
    tags={"C01": ["C01", "C07"]}, arities=[], timeout_ms=200000)
