# (alldifferent at n = 3: 138544 obligations, about 70 minutes on one core: thorough tier only)
# Hall-interval propagators in unroll mode (arity-bounded deductive proofs, values unbounded); larger arities stay bounded stand-ins
from nucsvc.propspec import propagator

propagator(REG, "nucs/propagators/alldifferent_propagator.py::compute_domains_alldifferent",
    rel="forall(a, 0, n, forall(b, a + 1, n, @T[a] != @T[b]))", n_min=1, requires=["m == 0", "forall(k, 0, n, -1000000000 <= domains[k, MIN] and domains[k, MAX] <= 1000000000)"],
    entail=False, unroll_only=True, arities=[{"n": a, "m": 0} for a in (1, 2)], arities_thorough=[{"n": a, "m": 0} for a in (1, 2, 3)], props=["C05", "C06", "C16", "C19", "C01", "C04"])

# gcc: parameters = [first value v0, m lower capacities, m upper capacities]. Upper capacities >= 1: capacity 0 is the recorded finding F4.
GM = "((m - 1) // 2)"
propagator(REG, "nucs/propagators/gcc_propagator.py::compute_domains_gcc",
    rel=f"forall(j, 0, {GM}, parameters[1 + j] <= count(i, 0, n, @T[i] == parameters[0] + j) and count(i, 0, n, @T[i] == parameters[0] + j) <= parameters[1 + {GM} + j])",
    n_min=1,
    requires=[f"m == 2 * {GM} + 1 and {GM} >= 1", f"forall(j, 0, {GM}, 0 <= parameters[1 + j] and parameters[1 + j] <= parameters[1 + {GM} + j] and 1 <= parameters[1 + {GM} + j] and parameters[1 + {GM} + j] <= 1000)",
              f"forall(k, 0, n, parameters[0] <= domains[k, MIN] and domains[k, MAX] <= parameters[0] + {GM} - 1)", "-1000000 <= parameters[0] and parameters[0] <= 1000000"],
    entail=False, unroll_only=True, arities=[{"n": 1, "m": 3}, {"n": 1, "m": 5}, {"n": 2, "m": 3}], arities_thorough=[{"n": 1, "m": 3}, {"n": 1, "m": 5}, {"n": 2, "m": 3}, {"n": 2, "m": 5}],
    props=["C05", "C06", "C16", "C19", "C01", "C04"])

# no_sub_cycle: successor map with values in [0,n); relation = no cycle of length < n (stated for n <= 5 by explicit powers of the map)
define("pw1(T, s)", "T[s]")
define("pw2(T, s)", "T[T[s]]")
define("pw3(T, s)", "T[T[T[s]]]")
define("pw4(T, s)", "T[T[T[T[s]]]]")
define("nosub(T, n)", "forall(s, 0, n, (n < 2 or pw1(T, s) != s) and (n < 3 or pw2(T, s) != s) and (n < 4 or pw3(T, s) != s) and (n < 5 or pw4(T, s) != s))")
define("isperm(T, n)", "forall(a, 0, n, forall(b, a + 1, n, T[a] != T[b]))")
propagator(REG, "nucs/propagators/no_sub_cycle_propagator.py::compute_domains_no_sub_cycle",
    rel="(forall(s, 0, n, 0 <= @T[s] and @T[s] < n) and nosub(@T, n))", n_min=3, requires=["m == 0", "n <= 5", "forall(k, 0, n, 0 <= domains[k, MIN] and domains[k, MAX] < n)"],
    entail=False, p3=False, unroll_only=True, arities=[{"n": 3, "m": 0}], arities_thorough=[{"n": 3, "m": 0}, {"n": 4, "m": 0}],
    extra_ensures=[("P3.ground_perm", "implies(result != PROP_INCONSISTENCY and forall(k, 0, n, domains[k, MIN] == domains[k, MAX]) and isperm(domains[:, MIN], n), nosub(domains[:, MIN], n))", ("C06", "C01"))],
    props=["C05", "C06", "C16", "C19", "C01", "C04"])
