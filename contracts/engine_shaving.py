from nucsvc.enginespec import *

SH = "nucs/solvers/shaving_consistency_algorithm.py::"
BCQ = "nucs/solvers/bound_consistency_algorithm.py::bound_consistency_algorithm"
SB_T = {"bound": "int", "dom_idx": "int"}
SB_T.update(ENGINE_T)
SB_T["decision_variables"] = SB_T.pop("decision_domains")
U_, U0 = "dom_update_stack", "old(dom_update_stack)"
BTN = "STATS_IDX_SOLVER_BACKTRACK_NB"
SOLVER_STATS_SAME = "forall(k, 0, 13, implies(k == STATS_IDX_SOLVER_CHOICE_NB or k == STATS_IDX_SOLVER_CHOICE_DEPTH or k == STATS_IDX_SOLVER_SOLUTION_NB, statistics[k] == old(statistics)[k]))"
T0 = "old(stacks_top)[0]"

SB_WF_STATIC = [(l, c.replace("decision_domains", "decision_variables")) for l, c in WF_STATIC]
contract(SH + "shave_bound", types=SB_T, result="bool", props=["C10", "C16", "C17", "C19", "C09", "C01", "C02", "C08"],
    requires=SB_WF_STATIC + WF_DYN + ["stacks_top[0] + 1 < H", "bound == MIN or bound == MAX", "0 <= dom_idx and dom_idx < D",
                                   "shr_domains_stack[stacks_top[0], dom_idx, MIN] < shr_domains_stack[stacks_top[0], dom_idx, MAX]"],
    ghost_results={"bound_consistency_algorithm": "probe_status"}, ghost={"sigma": "int[D]"},
    call_ghosts={"bound_consistency_algorithm": {"sigma": "sigma"}},
    modifies=["statistics", "shr_domains_stack", "not_entailed_propagators_stack", "dom_update_stack", "stacks_top", "triggered_propagators"],
    ensures=[
        ("C10.height", f"stacks_top[0] == {T0}"),
        ("C10.justified", "result == (probe_status == PROBLEM_INCONSISTENT)"),
        ("C10.frame", f"forall(l, 0, {T0} + 1, forall(d, 0, D, implies(l != {T0} or d != dom_idx, {SS}[l, d, MIN] == {SS0}[l, d, MIN] and {SS}[l, d, MAX] == {SS0}[l, d, MAX])))"),
        ("C10.bound", f"{SS}[{T0}, dom_idx, bound] == {SS0}[{T0}, dom_idx, bound] + ite(result, ite(bound == MAX, -1, 1), 0) and {SS}[{T0}, dom_idx, 1 - bound] == {SS0}[{T0}, dom_idx, 1 - bound]"),
        ("C10.nonempty", f"{SS}[{T0}, dom_idx, MIN] <= {SS}[{T0}, dom_idx, MAX]"),
        ("C10.preserve", f"implies(sol() and in_box({SS0}, {T0}), in_box({SS}, {T0}))"),
        ("C10.flags", f"forall(l, 0, {T0} + 1, forall(p, 0, P, {NEs}[l, p] == {NE0}[l, p]))"),
        ("C10.records", f"forall(l, 0, {T0}, {U_}[l, 0] == {U0}[l, 0] and {U_}[l, 1] == {U0}[l, 1])"),
        ("C10.wake", f"implies(result, forall(p, 0, P, implies({NEs}[{T0}, p] and has(triggers[dom_idx, p], ite(bound == MAX, EVENT_MASK_MAX, EVENT_MASK_MIN) | ite({SS}[{T0}, dom_idx, MIN] == {SS}[{T0}, dom_idx, MAX], EVENT_MASK_GROUND, 0)), triggered_propagators[p])))"),
        ("C17.solver_stats", SOLVER_STATS_SAME),
        ("C17.backtracks", f"statistics[{BTN}] == old(statistics)[{BTN}] + 1"),
        ("C17.shaving_stats", "forall(k, 1, 5, statistics[k] == old(statistics)[k])"),
    ],
    tags={"C10": ["C10"], "C10.wake": ["C10", "C01", "C02", "C08"], "C10.preserve": ["C10", "C02", "C03"], "C10.justified": ["C10", "C02"], "C17": ["C17"], "wf": ["C16", "C19"]}, arities=[])

SZ = lambda S: f"({S}[{T0}, d, MAX] - {S}[{T0}, d, MIN])"
SH_INV = [
    ("C10.top", f"stacks_top[0] == {T0}"),
    ("C10.levels", f"forall(l, 0, {T0}, lvl_same({SS}, {SS0}, l, D))"),
    ("C10.shrink", f"forall(d, 0, D, {SS0}[{T0}, d, MIN] <= {SS}[{T0}, d, MIN] and {SS}[{T0}, d, MIN] <= {SS}[{T0}, d, MAX] and {SS}[{T0}, d, MAX] <= {SS0}[{T0}, d, MAX])"),
    ("C07.flag_levels", f"forall(l, 0, {T0}, forall(p, 0, P, {NEs}[l, p] == {NE0}[l, p]))"),
    ("C07.flags_only_cleared", f"forall(p, 0, P, implies({NEs}[{T0}, p], {NE0}[{T0}, p]))"),
    ("C09.records", f"forall(l, 0, {T0}, {U_}[l, 0] == {U0}[l, 0] and {U_}[l, 1] == {U0}[l, 1])"),
    ("C17.solver_stats", SOLVER_STATS_SAME),
    ("C17.backtracks_mono", f"statistics[{BTN}] >= old(statistics)[{BTN}]"),
    ("C17.attempts", "statistics[STATS_IDX_ALG_SHAVING_NB] - old(statistics)[STATS_IDX_ALG_SHAVING_NB] == (statistics[STATS_IDX_ALG_SHAVING_CHANGE_NB] - old(statistics)[STATS_IDX_ALG_SHAVING_CHANGE_NB]) + (statistics[STATS_IDX_ALG_SHAVING_NO_CHANGE_NB] - old(statistics)[STATS_IDX_ALG_SHAVING_NO_CHANGE_NB])"),
    ("C17.passes", "statistics[STATS_IDX_ALG_BC_WITH_SHAVING_NB] == old(statistics)[STATS_IDX_ALG_BC_WITH_SHAVING_NB] + 1"),
    ("C10.shaved_idx", "implies(has_shaved, start_idx < D)"),
    ("C16.loop_vars", "0 <= start_idx and (bound == MIN or bound == MAX) and shr_domains_nb == D"),
    ("C10.preserve", f"implies(sol() and in_box({SS0}, {T0}), in_box({SS}, {T0}))"),
    ("C10.unbound", f"implies(not has_shaved, exists(d, 0, D, {SS}[{T0}, d, MIN] < {SS}[{T0}, d, MAX]))"),
]
contract(SH + "shaving_consistency_algorithm", types=ENGINE_T, props=["C10", "C16", "C17", "C19", "C01", "C02", "C03", "C04", "C07", "C08"],
    requires=WF_STATIC + WF_DYN + ["D >= 1"], ghost={"sigma": "int[D]"},
    call_ghosts={"bound_consistency_algorithm": {"sigma": "sigma"}, "shave_bound": {"sigma": "sigma"}},
    modifies=["statistics", "shr_domains_stack", "not_entailed_propagators_stack", "dom_update_stack", "stacks_top", "triggered_propagators"],
    loops={1: dict(fingerprint="while start_idx < shr_domains_nb", invariant=SH_INV,
                   # C04: lexicographic measure (domains still to be scanned, bounds still to be tried on the current one, total size of the box)
                   decreases=["D - start_idx", "2 - bound", f"sum(d, 0, D, {SZ(SS)})"],
                   hints=[f"lemma_sum_zero(d, 0, D, {SZ(SS)})"],
                   step_hints=[f"lemma_sum_le(d, 0, D, {SZ(SS)}, {SZ('it0(' + SS + ')')})"],
                   step_ensures=[("C04.shrunk", f"forall(d, 0, D, it0({SS})[{T0}, d, MIN] <= {SS}[{T0}, d, MIN] and {SS}[{T0}, d, MAX] <= it0({SS})[{T0}, d, MAX] and {SS}[{T0}, d, MIN] <= {SS}[{T0}, d, MAX])"),
                                 ("C04.progress", f"start_idx >= it0(start_idx) and implies(has_shaved, 0 <= start_idx and start_idx < D and {SS}[{T0}, start_idx, MAX] - {SS}[{T0}, start_idx, MIN] < it0({SS})[{T0}, start_idx, MAX] - it0({SS})[{T0}, start_idx, MIN])")])},
    ensures=CA_FRAME_IFACE + [CA_SHRINK, CA_STATUS, CA_BOUND, CA_UNBOUND, CA_PRESERVE,
        ("C17.solver_stats", SOLVER_STATS_SAME),
        ("C17.backtracks_mono", f"statistics[{BTN}] >= old(statistics)[{BTN}]"),
        ("C17.attempts", "statistics[STATS_IDX_ALG_SHAVING_NB] - old(statistics)[STATS_IDX_ALG_SHAVING_NB] == (statistics[STATS_IDX_ALG_SHAVING_CHANGE_NB] - old(statistics)[STATS_IDX_ALG_SHAVING_CHANGE_NB]) + (statistics[STATS_IDX_ALG_SHAVING_NO_CHANGE_NB] - old(statistics)[STATS_IDX_ALG_SHAVING_NO_CHANGE_NB])"),
        ("C17.passes", "statistics[STATS_IDX_ALG_BC_WITH_SHAVING_NB] == old(statistics)[STATS_IDX_ALG_BC_WITH_SHAVING_NB] + 1"),
        ("C09.records", f"forall(l, 0, {T0}, {U_}[l, 0] == {U0}[l, 0] and {U_}[l, 1] == {U0}[l, 1])"),
    ],
    tags={"C10": ["C10"], "C08": ["C08", "C10"], "C07": ["C07"], "C01": ["C01"], "C02": ["C02", "C10", "C03"], "C17": ["C17"], "C09": ["C09"], "C04": ["C04"], "wf": ["C16", "C19"]}, arities=[])


# ------------------------------------------------------------------ acceptance (C01 composition through shaving, full-mask constraints)
SBB = REG.contracts[SH + "shave_bound"]
A_TOP, J_TOP = ACC_A(SS), ACC_J(SS)
contract(SH + "shave_bound", variant="acc", types=SB_T, result="bool", props=["C01"],
    requires=list(SBB.requires) + [ALLFULL, ("C01.A0", A_TOP), ("C01.J0", J_TOP)],
    ghost_results=SBB.extra["ghost_results"], ghost=SBB.ghost, call_ghosts=SBB.extra["call_ghosts"], defs=[V_DEF], modifies=SBB.modifies,
    ensures=list(SBB.ensures) + [
        # the probe's own acceptance is irrelevant: only its verdict is used; what matters is the restored / shaved level
        ("C01.restored", f"implies(not result, {A_TOP})"),
        ("C01.shaved", f"implies(result, {ACC_K(SS, 'triggered_propagators', '-1')})"),
        ("C01.J", J_TOP)],
    tags={"C01": ["C01"], "C10": ["C01"], "C17": ["C01"], "wf": ["C16"]}, arities=[], timeout_ms=200000)

SHB = REG.contracts[SH + "shaving_consistency_algorithm"]
lo = dict(SHB.loops[1])
lo["invariant"] = [c for c in lo["invariant"] if "preserve" not in c[0]] + [("C01.state", f"ite(has_shaved, {ACC_K(SS, 'triggered_propagators', '-1')}, {A_TOP})"), ("C01.J", J_TOP)]
for _k in ("decreases", "hints", "step_hints", "step_ensures"):
    lo.pop(_k, None)
contract(SH + "shaving_consistency_algorithm", variant="acc", types=ENGINE_T, props=["C01"],
    requires=list(SHB.requires) + ACC_REQ, ghost=SHB.ghost, defs=[V_DEF],
    calls={"bound_consistency_algorithm": BCQ + "#acc", "shave_bound": SH + "shave_bound#acc"},
    call_ghosts=SHB.extra["call_ghosts"], modifies=SHB.modifies, loops={1: lo},
    ensures=[c for c in SHB.ensures if c[0] != "C02.preserve"] + ACC_ENS,
    tags={"C01": ["C01"], "C10": ["C01"], "C08": ["C01"], "C07": ["C01"], "C17": ["C01"], "C09": ["C01"], "wf": ["C16"]}, arities=[], timeout_ms=200000)


# ------------------------------------------------------------------ fixpoint layer (C08) through shaving: the probe pass and the outer passes start from FixPre
FA_TOP = FIX_A(SS)
FK_TOP = FIX_K(SS, "triggered_propagators", "-1")
PT = "old(stacks_top)[0]"  # the level being shaved; the probe level is PT + 1
# the probe level PT+1 is the old row with dom_idx fixed to one bound (events: what the value heuristic returned, plus GROUND)
PROBE_ROW = f"axiom_fix_frame(old({SS}), {PT}, {SS}, {PT} + 1, dom_idx, events)"
# the level PT after the call: the old row minus one bound value, announced by the recorded update; or the old row itself (restored)
SHAVED_ROW = f"axiom_fix_frame(old({SS}), {PT}, {SS}, {PT}, dom_idx, dom_update_stack[{PT}, DOM_UPDATE_EVENTS])"
RESTORED_ROW = f"axiom_fix_frame(old({SS}), {PT}, {SS}, {PT}, dom_idx, 0)"
contract(SH + "shave_bound", variant="fix", types=SB_T, result="bool", props=["C08", "C01", "C02"],
    requires=list(SBB.requires) + [NOALIAS, AFFEQ_FULL, ("C08.A0", FA_TOP)],
    ghost_results=SBB.extra["ghost_results"], ghost=SBB.ghost, call_ghosts=SBB.extra["call_ghosts"], modifies=SBB.modifies,
    calls={"bound_consistency_algorithm": BCQ + "#fix"},
    hints=[SHAVED_ROW, RESTORED_ROW], call_hints={"bound_consistency_algorithm": [PROBE_ROW]},
    ensures=[c for c in SBB.ensures if "preserve" not in c[0]] + [
        ("C08.restored", f"implies(not result, {FA_TOP})"),
        ("C08.shaved", f"implies(result, {FK_TOP})")],
    tags={"C08": ["C08", "C01", "C02"], "C10": ["C08"], "C17": ["C08"], "wf": ["C16"]}, arities=[], timeout_ms=200000)

flo = dict(SHB.loops[1])
flo["invariant"] = [c for c in flo["invariant"] if "preserve" not in c[0]] + [("C08.state", f"ite(has_shaved, {FK_TOP}, {FA_TOP})")]
for _k in ("decreases", "hints", "step_hints", "step_ensures"):
    flo.pop(_k, None)
contract(SH + "shaving_consistency_algorithm", variant="fix", types=ENGINE_T, props=["C08", "C01", "C02"],
    requires=list(SHB.requires) + FIX_REQ, ghost=SHB.ghost,
    calls={"bound_consistency_algorithm": BCQ + "#fix", "shave_bound": SH + "shave_bound#fix"},
    call_ghosts=SHB.extra["call_ghosts"], modifies=SHB.modifies, loops={1: flo},
    ensures=[c for c in SHB.ensures if c[0] != "C02.preserve"] + FIX_ENS,
    tags={"C08": ["C08", "C01", "C02"], "C10": ["C08"], "C07": ["C08"], "C17": ["C08"], "C09": ["C08"], "wf": ["C16"]}, arities=[], timeout_ms=200000)


# ------------------------------------------------------------------ J alone through shaving (no hypothesis on the masks), see bound_consistency_algorithm#j
contract(SH + "shave_bound", variant="j", types=SB_T, result="bool", props=["C01", "C07"],
    requires=list(SBB.requires) + [("C01.J0", J_TOP)],
    ghost_results=SBB.extra["ghost_results"], ghost=SBB.ghost, call_ghosts=SBB.extra["call_ghosts"], defs=[V_DEF], modifies=SBB.modifies,
    ensures=list(SBB.ensures) + [("C01.J", J_TOP)],
    tags={"C01": ["C01", "C07"], "C10": ["C01"], "C17": ["C01"], "wf": ["C16"]}, arities=[], timeout_ms=200000)
jlo = dict(SHB.loops[1])
jlo["invariant"] = [c for c in jlo["invariant"] if "preserve" not in c[0]] + [("C01.J", J_TOP)]
for _k in ("decreases", "hints", "step_hints", "step_ensures"):
    jlo.pop(_k, None)
contract(SH + "shaving_consistency_algorithm", variant="j", types=ENGINE_T, props=["C01", "C07"],
    requires=list(SHB.requires) + [("C01.J0", J_TOP)], ghost=SHB.ghost, defs=[V_DEF],
    calls={"bound_consistency_algorithm": BCQ + "#j", "shave_bound": SH + "shave_bound#j"},
    call_ghosts=SHB.extra["call_ghosts"], modifies=SHB.modifies, loops={1: jlo},
    ensures=[c for c in SHB.ensures if c[0] != "C02.preserve"] + [ACC_ENS[1]],
    tags={"C01": ["C01", "C07"], "C10": ["C01"], "C08": ["C01"], "C07": ["C01", "C07"], "C17": ["C01"], "C09": ["C01"], "wf": ["C16"]}, arities=[], timeout_ms=200000)
