from nucsvc.enginespec import *

SOLVER_STATS_SAME = "forall(k, 0, 13, implies(k == STATS_IDX_SOLVER_CHOICE_NB or k == STATS_IDX_SOLVER_CHOICE_DEPTH or k == STATS_IDX_SOLVER_SOLUTION_NB, statistics[k] == old(statistics)[k]))"
CA_ENS = CA_FRAME_IFACE + [CA_SHRINK, CA_STATUS, CA_BOUND, CA_UNBOUND, CA_PRESERVE,
    ("C17.solver_stats", SOLVER_STATS_SAME),
    ("C17.backtracks_mono", "statistics[STATS_IDX_SOLVER_BACKTRACK_NB] >= old(statistics)[STATS_IDX_SOLVER_BACKTRACK_NB]"),
    ("C09.records", "forall(l, 0, stacks_top[0], dom_update_stack[l, 0] == old(dom_update_stack)[l, 0] and dom_update_stack[l, 1] == old(dom_update_stack)[l, 1])"),
]
CA_MOD = ["statistics", "shr_domains_stack", "not_entailed_propagators_stack", "dom_update_stack", "stacks_top", "triggered_propagators"]
interface("ConsistencyAlg", types=ENGINE_T, requires=WF_STATIC + WF_DYN, ensures=CA_ENS, modifies=CA_MOD)
# the same interface with the acceptance state (C01 composition): implemented by bound_consistency_algorithm#acc and shaving_consistency_algorithm#acc
CA_ACC_ENS = [c for c in CA_ENS if c[0] != "C02.preserve"] + ACC_ENS
interface("ConsistencyAlgAcc", types=ENGINE_T, requires=WF_STATIC + WF_DYN + ACC_REQ, ensures=CA_ACC_ENS, modifies=CA_MOD)

SOLVE_T = dict(ENGINE_T)
del SOLVE_T["compute_domains_addrs"], SOLVE_T["decision_domains"]
SOLVE_T.update({"consistency_alg_idx": "int", "decision_domains": "u16[K]", "var_heuristic_idx": "int", "var_heuristic_params": "opaque",
                "dom_heuristic_idx": "int", "dom_heuristic_params": "opaque", "compute_domains_addrs": "opaque", "consistency_alg_addrs": "opaque",
                "var_heuristic_addrs": "opaque", "dom_heuristic_addrs": "opaque"})
LEVELS_NONEMPTY = ("wf.levels_nonempty", "forall(l, 0, stacks_top[0] + 1, forall(d, 0, D, shr_domains_stack[l, d, MIN] <= shr_domains_stack[l, d, MAX]))")
ALL_DECISION = ("C02.all_decision", "forall(d, 0, D, exists(k, 0, K, decision_domains[k] == trig(d)))")
CH, BT, SOL, DEPTH = "STATS_IDX_SOLVER_CHOICE_NB", "STATS_IDX_SOLVER_BACKTRACK_NB", "STATS_IDX_SOLVER_SOLUTION_NB", "STATS_IDX_SOLVER_CHOICE_DEPTH"

# the level holding the ghost solution sigma (witness of 'sigma is still in the stack'), re-chosen after every iteration
T_IT0 = "it0(stacks_top)[0]"
DSEL = f"dom_update_stack[{T_IT0}, 0]"  # after a choice at level it0(top): the domain that was split (quantifier-free witness selection)
INL = lambda l: f"({SS}[{l}, {DSEL}, MIN] <= trig(sigma[{DSEL}]) and trig(sigma[{DSEL}]) <= {SS}[{l}, {DSEL}, MAX])"
LV_NEXT = f"ite(lv < {T_IT0}, lv, ite({INL(T_IT0)}, {T_IT0}, ite({INL(T_IT0 + ' + 1')}, {T_IT0} + 1, {T_IT0} + 2)))"
SOL_HYP = f"sol() and 0 <= lv0 and lv0 <= old(stacks_top)[0] and in_box({SS0}, lv0)"


def solve_one_contract(variant, ca_target, extra_inv, extra_ens, **kw):
    contract("nucs/solvers/backtrack_solver.py::solve_one", variant=variant, types=SOLVE_T,
        props=["C01", "C02", "C09", "C16", "C17", "C19", "C07"],
        requires=WF_STATIC + [WF_DYN[0], WF_DYN[1], WF_DYN[3], LEVELS_NONEMPTY, ALL_DECISION, ("C17.depth0", f"statistics[{DEPTH}] >= stacks_top[0]"),
                              ("C02.disjoint0", f"disjoint_levels({SS}, dom_update_stack, stacks_top[0])")],
        calls={"consistency_alg_fct": ca_target, "var_heuristic_fct": "iface:VarHeuristic", "dom_heuristic_fct": "iface:DomHeuristic"},
        ghost_calls={"consistency_alg_fct": "bc_calls", "dom_heuristic_fct": "choices", "backtrack": "bt"},
        ghost={"sigma": "int[D]", "lv0": "int"}, ghost_init={"lv": "@lv0"}, call_ghosts={"consistency_alg_fct": {"sigma": "sigma"}},
        modifies=CA_MOD, result="i64[V]",
        loops={1: dict(fingerprint="while True", also_modifies=["lv"], ghost_updates={"lv": LV_NEXT}, step_ensures=kw.pop("step_ensures", []), invariant=[
            ("wf.top", "stacks_top[0] < H"), LEVELS_NONEMPTY, WF_DYN[3],
            ("C17.solutions", f"{dstat(SOL)} == 0"),
            ("C17.choices", f"{dstat(CH)} == choices"),
            ("C17.passes", "bc_calls == choices + bt"),
            ("C17.depth", f"statistics[{DEPTH}] >= stacks_top[0] and statistics[{DEPTH}] >= old(statistics)[{DEPTH}]"),
            ("C02.disjoint", f"disjoint_levels({SS}, dom_update_stack, stacks_top[0])"),
            ("C01.within_root", f"implies(old(stacks_top)[0] == 0, forall(l, 0, stacks_top[0] + 1, forall(d, 0, D, {SS0}[0, d, MIN] <= {SS}[l, d, MIN] and {SS}[l, d, MAX] <= {SS0}[0, d, MAX])))"),
        ] + extra_inv)},
        ensures=[
            ("C01.solution", "implies(result is not None, forall(v, 0, V, result[v] == shr_domains_stack[stacks_top[0], dom_indices_arr[v], MIN] + dom_offsets_arr[v]))"),
            ("C01.ground", "implies(result is not None, forall(d, 0, D, shr_domains_stack[stacks_top[0], d, MIN] == shr_domains_stack[stacks_top[0], d, MAX]))"),
            ("C17.solution_count", f"{dstat(SOL)} == ite(result is not None, 1, 0)"),
            ("C17.choice_count", f"{dstat(CH)} == choices"),
            ("C17.conservation", "bc_calls == 1 + choices + ite(result is not None, bt, bt - 1)"),
            ("C02.exhausted", "implies(result is None, stacks_top[0] == 0)"),
            ("C02.disjoint", f"disjoint_levels({SS}, dom_update_stack, stacks_top[0])"),
            ("C01.in_domain", f"implies(old(stacks_top)[0] == 0 and result is not None, forall(v, 0, V, {SS0}[0, dom_indices_arr[v], MIN] + dom_offsets_arr[v] <= result[v] and result[v] <= {SS0}[0, dom_indices_arr[v], MAX] + dom_offsets_arr[v]))"),
            ("C17.depth_mono", f"statistics[{DEPTH}] >= old(statistics)[{DEPTH}]"),
            ("wf.post", f"stacks_top[0] < H and statistics[{DEPTH}] >= stacks_top[0]"),
        ] + extra_ens,
        tags={"C01": ["C01"], "C17": ["C17"], "C02": ["C02"], "wf": ["C16", "C19"], "C09": ["C09"], "DomHeuristic": ["C19", "C09"]},
        arities=[], **kw)

solve_one_contract(None, "iface:ConsistencyAlg", [(f"C17.backtracks", f"{dstat(BT)} >= bt")], [])
solve_one_contract("bc", "nucs/solvers/bound_consistency_algorithm.py::bound_consistency_algorithm",
    [("C17.backtracks", f"{dstat(BT)} == bt"), ("C17.bc_passes", f"{dstat('STATS_IDX_ALG_BC_NB')} == bc_calls")],
    [("C17.bc_law", f"{dstat('STATS_IDX_ALG_BC_NB')} == 1 + {dstat(CH)} + {dstat(BT)}")])

# semantic variant: no solution of the stack is lost by a search (ghost solution sigma, ghost level witness lv); heavier queries, own budget
SEM_INV = [("C17.backtracks", f"{dstat(BT)} >= bt"), ("C02.remaining", f"implies({SOL_HYP}, 0 <= lv and lv <= stacks_top[0] and in_box({SS}, lv))")]
SEM_ENS = [("C02.no_loss", f"implies({SOL_HYP}, result is not None and 0 <= lv and lv <= stacks_top[0] and in_box({SS}, lv))"),
           ("C02.none_means_empty", f"implies(result is None, not ({SOL_HYP}))")]
SEM_STEP = [
        ("C02.step_refuted", f"implies(({SOL_HYP}) and status == PROBLEM_INCONSISTENT, it0(lv) < {T_IT0})"),
        ("C02.step_lower", f"implies(({SOL_HYP}) and it0(lv) < {T_IT0}, lv == it0(lv) and in_box({SS}, it0(lv)))"),
        ("C02.step_cover", f"implies(({SOL_HYP}) and status == PROBLEM_UNBOUND and it0(lv) == {T_IT0}, {INL(T_IT0)} or {INL(T_IT0 + ' + 1')} or ({T_IT0} + 2 <= stacks_top[0] and {INL(T_IT0 + ' + 2')}))"),
        ("C02.step_range", f"implies({SOL_HYP}, 0 <= lv and lv <= stacks_top[0])"),
    ]
solve_one_contract("sem", "iface:ConsistencyAlg", SEM_INV, SEM_ENS, timeout_ms=400000, step_ensures=SEM_STEP)
REG.contracts["nucs/solvers/backtrack_solver.py::solve_one#sem"].props = ["C02", "C03", "C10"]

# ------------------------------------------------------------------ acceptance variant (C01 composition, full-mask constraints, BC)
# per level: K (enabled constraints instantiated to sigma hold unless queued / unless the recorded update wakes them), J (disabled ones hold on the box)
WATCH = lambda l: f"has(triggers[dom_update_stack[{l}, DOM_UPDATE_IDX], p], dom_update_stack[{l}, DOM_UPDATE_EVENTS])"
ACC_KL = f"forall(l, 0, stacks_top[0], forall(p, 0, P, implies({NEs}[l, p] and onpoint({SS}, l, p) and not {WATCH('l')}, rel_holds(p))))"
ACC_JL = f"forall(l, 0, stacks_top[0] + 1, forall(p, 0, P, implies(not {NEs}[l, p] and in_box({SS}, l), rel_holds(p))))"
ACC_STATE = [("C01.K", ACC_K(SS, "triggered_propagators", "-1")), ("C01.KL", ACC_KL), ("C01.JL", ACC_JL)]
solve_one_contract("acc", "iface:ConsistencyAlgAcc",
    [(f"C17.backtracks", f"{dstat(BT)} >= bt")] + ACC_STATE,
    [("C01.satisfies", f"implies(result is not None and forall(d, 0, D, trig(d) == d and sigma[d] == {SS}[stacks_top[0], d, MIN]), forall(p, 0, P, rel_holds(p)))"),
     ("C01.K_post", f"implies(result is not None, {ACC_K(SS, 'triggered_propagators', '-1')})"),
     ("C01.KL_post", f"implies(result is not None, {ACC_KL})"), ("C01.JL_post", f"implies(result is not None, {ACC_JL})")],
    timeout_ms=200000)
_c = REG.contracts["nucs/solvers/backtrack_solver.py::solve_one#acc"]
_c.props = ["C01"]
_c.requires = list(_c.requires) + [ALLFULL] + [(n + "0", e) for n, e in ACC_STATE]
_c.extra["defs"] = [V_DEF]

# ------------------------------------------------------------------ at-most-once (C02): an assignment that is in no level of the stack never comes back
ABSENT_KEPT = f"implies(absent({SS0}, old(stacks_top)[0]), absent({SS}, stacks_top[0]))"
solve_one_contract("once", "iface:ConsistencyAlg",
    [(f"C17.backtracks", f"{dstat(BT)} >= bt"), ("C02.absent", ABSENT_KEPT)],
    [("C02.absent", f"implies(result is not None, {ABSENT_KEPT})")], timeout_ms=200000,
    step_ensures=[("C02.top_absent", f"implies(absent({SS0}, old(stacks_top)[0]), trig({T_IT0}) == {T_IT0} and not in_box(it0({SS}), {T_IT0}))")])
REG.contracts["nucs/solvers/backtrack_solver.py::solve_one#once"].props = ["C02"]

# both directions in one contract (what the enumeration loop of BacktrackSolver.solve needs): no loss + never again
solve_one_contract("enum", "iface:ConsistencyAlg", SEM_INV + [("C02.absent", ABSENT_KEPT)], SEM_ENS + [("C02.absent", f"implies(result is not None, {ABSENT_KEPT})")], timeout_ms=400000,
    step_ensures=SEM_STEP + [("C02.top_absent", f"implies(absent({SS0}, old(stacks_top)[0]), trig({T_IT0}) == {T_IT0} and not in_box(it0({SS}), {T_IT0}))")])
REG.contracts["nucs/solvers/backtrack_solver.py::solve_one#enum"].props = ["C02"]

# ------------------------------------------------------------------ fixpoint layer (C08): every propagation pass of a search starts from a state where the
# constraints that are not queued are at a fixpoint, so (ConsistencyAlgFix) it ends at a common fixpoint of the enabled constraints
CA_FIX_ENS = [c for c in CA_ENS if c[0] != "C02.preserve"] + FIX_ENS
interface("ConsistencyAlgFix", types=ENGINE_T, requires=WF_STATIC + WF_DYN + FIX_REQ, ensures=CA_FIX_ENS, modifies=CA_MOD)
FIX_KL = f"forall(l, 0, stacks_top[0], forall(p, 0, P, implies({NEs}[l, p] and not {WATCH('l')}, fixp({SS}, l, p))))"
FIX_STATE = [("C08.K", FIX_K(SS, "triggered_propagators", "-1")), ("C08.KL", FIX_KL)]
ROWS_BELOW = f"forall(l, 0, {T_IT0}, axiom_fix_frame(it0({SS}), l, {SS}, l, 0, 0))"          # rows below the level the iteration started at are untouched
NEW_ROW = lambda l: f"axiom_fix_frame(S_mid, {T_IT0}, {SS}, {l}, dom_update_stack[{T_IT0}, DOM_UPDATE_IDX], ite({l} == stacks_top[0], ev_top, dom_update_stack[{l}, DOM_UPDATE_EVENTS]))"
solve_one_contract("fix", "iface:ConsistencyAlgFix",
    [(f"C17.backtracks", f"{dstat(BT)} >= bt")] + FIX_STATE,
    [("C08.K_post", f"implies(result is not None, {FIX_K(SS, 'triggered_propagators', '-1')})"), ("C08.KL_post", f"implies(result is not None, {FIX_KL})")],
    timeout_ms=200000, snap_after={"consistency_alg_fct": {"S_mid": "shr_domains_stack"}}, ghost_results={"dom_heuristic_fct": "ev_top"})
_c = REG.contracts["nucs/solvers/backtrack_solver.py::solve_one#fix"]
_c.extra["ghost_init"] = dict(_c.extra["ghost_init"], ev_top=0)
_c.props = ["C08", "C01", "C02"]
_c.tags = dict(_c.tags, C08=["C08", "C01", "C02"])
_c.requires = list(_c.requires) + [NOALIAS, AFFEQ_FULL] + [(n + "0", e) for n, e in FIX_STATE]
_c.loops[1]["step_hints"] = [ROWS_BELOW, NEW_ROW(T_IT0), NEW_ROW(T_IT0 + " + 1"), NEW_ROW(T_IT0 + " + 2")]
_c.loops[1]["return_hints"] = [ROWS_BELOW]

# ------------------------------------------------------------------ acceptance for ARBITRARY wake-up masks (C01): fixpoint layer + J + bridge axiom A-FIX-ACC.
# ConsistencyAlgFixJ = conjunction of two verified contracts of the same functions (#fix and #j), for BC and for shaving.
interface("ConsistencyAlgFixJ", types=ENGINE_T, requires=WF_STATIC + WF_DYN + FIX_REQ + [("C01.J0", ACC_J(SS))], ensures=CA_FIX_ENS + [ACC_ENS[1]], modifies=CA_MOD)
POINT_BRIDGE = f"forall(p, 0, P, axiom_fix_point({SS}, stacks_top[0], p))"
solve_one_contract("accp", "iface:ConsistencyAlgFixJ",
    [(f"C17.backtracks", f"{dstat(BT)} >= bt")] + FIX_STATE + [("C01.JL", ACC_JL)],
    [("C01.satisfies", f"implies(result is not None and forall(d, 0, D, trig(d) == d and sigma[d] == {SS}[stacks_top[0], d, MIN]), forall(p, 0, P, rel_holds(p)))"),
     ("C08.K_post", f"implies(result is not None, {FIX_K(SS, 'triggered_propagators', '-1')})"), ("C08.KL_post", f"implies(result is not None, {FIX_KL})"),
     ("C01.JL_post", f"implies(result is not None, {ACC_JL})")],
    timeout_ms=200000, snap_after={"consistency_alg_fct": {"S_mid": "shr_domains_stack"}}, ghost_results={"dom_heuristic_fct": "ev_top"})
_c = REG.contracts["nucs/solvers/backtrack_solver.py::solve_one#accp"]
_c.extra["ghost_init"] = dict(_c.extra["ghost_init"], ev_top=0)
_c.props = ["C01"]
_c.requires = list(_c.requires) + [NOALIAS, AFFEQ_FULL] + [(n + "0", e) for n, e in FIX_STATE] + [("C01.JL0", ACC_JL)]
_c.extra["defs"] = [V_DEF]
_c.loops[1]["step_hints"] = [ROWS_BELOW, NEW_ROW(T_IT0), NEW_ROW(T_IT0 + " + 1"), NEW_ROW(T_IT0 + " + 2")]
_c.loops[1]["return_hints"] = [ROWS_BELOW, POINT_BRIDGE]
