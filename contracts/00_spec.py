# spec-level macros shared by all contracts (contract language, see DESIGN 2.4)
define("inbox(t, D, n)", "forall(k, 0, n, D[k, MIN] <= t[k] and t[k] <= D[k, MAX])")
define("point(D, n)", "forall(k, 0, n, D[k, MIN] == D[k, MAX])")

# ---- semantic layer (DESIGN 3.3): `sigma` is an arbitrary fixed ghost assignment of the shared domains; Rel(p, t) is the (uninterpreted)
# relation of posted constraint p on a tuple t; V(p) is sigma seen through the variables of p (shared domain value + offset).
define("tv(p)", "ufun_arr('V', var_bounds[p, RG_END] - var_bounds[p, RG_START], p)")
define("rel_holds(p)", "ufun_bool('Rel', p, tv(p))")
# opaque outside bound_consistency_algorithm (the only function that needs its definition, see SOL_DEF)
define("sol()", "ufun_bool('IsSol', sigma)")
define("in_box(S, l)", "forall(d, 0, D, S[l, d, MIN] <= sigma[d] and sigma[d] <= S[l, d, MAX])")
define("remaining(S, t)", "exists(l, 0, t + 1, in_box(S, l))")
# two stack levels are separated on the domain recorded when the lower one was left as an alternative (no existential needed)
define("disjoint_levels(S, U, t)", "forall(l1, 0, t, forall(l2, l1 + 1, t + 1, S[l1, U[l1, 0], MAX] < S[l2, U[l1, 0], MIN] or S[l2, U[l1, 0], MAX] < S[l1, U[l1, 0], MIN]))")

# ---- acceptance layer (C01 composition, full-mask constraints): sigma is an arbitrary ghost point of the shared domains
define("fullmask(p)", "forall(k, var_bounds[p, RG_START], var_bounds[p, RG_END], has(triggers[props_dom_indices[k], p], EVENT_MASK_MIN) and has(triggers[props_dom_indices[k], p], EVENT_MASK_MAX))")
define("onpoint(S, l, p)", "forall(k, var_bounds[p, RG_START], var_bounds[p, RG_END], S[l, props_dom_indices[k], MIN] == sigma[props_dom_indices[k]] and S[l, props_dom_indices[k], MAX] == sigma[props_dom_indices[k]])")
define("absent(S, t)", "forall(l, 0, t + 1, trig(l) == l and not in_box(S, l))")
