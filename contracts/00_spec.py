# spec-level macros shared by all contracts (contract language, see DESIGN 2.4)
define("inbox(t, D, n)", "forall(k, 0, n, D[k, MIN] <= t[k] and t[k] <= D[k, MAX])")
define("point(D, n)", "forall(k, 0, n, D[k, MIN] == D[k, MAX])")
