# spec-level macros shared by all contracts (contract language, see DESIGN 2.4)
define("inbox(t, D, n)", "forall(k, 0, n, D[k, MIN] <= t[k] and t[k] <= D[k, MAX])")
define("point(D, n)", "forall(k, 0, n, D[k, MIN] == D[k, MAX])")

# ---- semantic layer (DESIGN 3.3): `sigma` is an arbitrary fixed ghost assignment of the shared domains; Rel(p, t) is the (uninterpreted)
# relation of posted constraint p on a tuple t; V(p) is sigma seen through the variables of p (shared domain value + offset).
define("tv(p)", "ufun_arr('V', var_bounds[p, RG_END] - var_bounds[p, RG_START], p)")
define("rel_holds(p)", "ufun_bool('Rel', p, tv(p))")
# opaque outside bound_consistency_algorithm (the only function that needs its definition, see SOL_DEF)
define("sol()", "ufun_bool('IsSol', sigma)")
define("in_box(S, l)", "forall(d, 0, D, S[l, d, MIN] <= sigma[d] and sigma[d] <= S[l, d, MAX])")
define("remaining(S, t)", "exists(l, 0, t + 1, in_box(S, l))")
# two stack levels are separated on the domain recorded when the lower one was left as an alternative (no existential needed)
define("disjoint_levels(S, U, t)", "forall(l1, 0, t, forall(l2, l1 + 1, t + 1, S[l1, U[l1, 0], MAX] < S[l2, U[l1, 0], MIN] or S[l2, U[l1, 0], MAX] < S[l1, U[l1, 0], MIN]))")

# ---- acceptance layer (C01 composition, full-mask constraints): sigma is an arbitrary ghost point of the shared domains
define("fullmask(p)", "forall(k, var_bounds[p, RG_START], var_bounds[p, RG_END], has(triggers[props_dom_indices[k], p], EVENT_MASK_MIN) and has(triggers[props_dom_indices[k], p], EVENT_MASK_MAX))")
define("onpoint(S, l, p)", "forall(k, var_bounds[p, RG_START], var_bounds[p, RG_END], S[l, props_dom_indices[k], MIN] == sigma[props_dom_indices[k]] and S[l, props_dom_indices[k], MAX] == sigma[props_dom_indices[k]])")
define("absent(S, t)", "forall(l, 0, t + 1, trig(l) == l and not in_box(S, l))")

# ------------------------------------------------------------------ fixpoint layer (C08): Fix(p, l, S) "re-executing constraint p on row l of S changes nothing and does not fail"
define("fixp(S, l, p)", "ufun_bool('Fix', p, l, S)")
define("moved(S1, l1, S2, l2, d)", "S2[l2, d, MIN] != S1[l1, d, MIN] or S2[l2, d, MAX] != S1[l1, d, MAX]")
axiom("axiom_fix_frame(S1, l1, S2, l2, d, e)",
      "implies(forall(dd, 0, D, implies(dd != d, S2[l2, dd, MIN] == S1[l1, dd, MIN] and S2[l2, dd, MAX] == S1[l1, dd, MAX])) "
      "and S1[l1, d, MIN] <= S2[l2, d, MIN] and S2[l2, d, MAX] <= S1[l1, d, MAX] and 0 <= e and e < 8 "
      "and implies(S2[l2, d, MIN] != S1[l1, d, MIN], has(e, EVENT_MASK_MIN)) and implies(S2[l2, d, MAX] != S1[l1, d, MAX], has(e, EVENT_MASK_MAX)) "
      "and implies(moved(S1, l1, S2, l2, d) and S2[l2, d, MIN] == S2[l2, d, MAX], has(e, EVENT_MASK_GROUND)), "
      "forall(p, 0, P, implies(fixp(S1, l1, p) and not has(triggers[d, p], e), fixp(S2, l2, p))))",
      "A-FIX-ADEQ (C08, wake-up masks are sufficient): if row l2 of S2 is row l1 of S1 with the single domain d shrunk, and e contains MIN/MAX for each moved bound and GROUND if d "
      "became a point, then every constraint that is at a fixpoint on (S1,l1) and does not watch (d,e) is at a fixpoint on (S2,l2). Per-propagator justification: get_triggers contracts + bounded trigger suite; not derived deductively.")
axiom("axiom_fix_ran(ok, S, l, p)", "implies(ok, fixp(S, l, p))",
      "A-FIX-RAN (C08): at the end of an iteration of the propagation loop, if constraint p was executed without failure, the store row now equals the box it returned at every position of p, and either "
      "nothing changed (determinism: the same input gives the same output) or p is not the linear equality (idempotence, C14: a second consecutive call changes nothing; proved for 4 propagators, bounded for the others), then p is at a fixpoint on that row.")
define("noalias(p)", "forall(k1, var_bounds[p, RG_START], var_bounds[p, RG_END], forall(k2, k1 + 1, var_bounds[p, RG_END], props_dom_indices[k1] != props_dom_indices[k2]))")
axiom("axiom_fix_point(S, l, p)", "implies(fixp(S, l, p) and onpoint(S, l, p), rel_holds(p))",
      "A-FIX-ACC (bridge C08 -> C01): a constraint that is at a fixpoint (re-executing it does not fail) on a row where all its variables are instantiated to sigma holds on sigma. "
      "This is clause P3 of the propagator contracts (a ground tuple is rejected iff it violates the relation), proved per propagator; used as a named axiom because Fix is uninterpreted.")
