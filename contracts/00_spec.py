# spec-level macros shared by all contracts (contract language, see DESIGN 2.4)
define("inbox(t, D, n)", "forall(k, 0, n, D[k, MIN] <= t[k] and t[k] <= D[k, MAX])")
define("point(D, n)", "forall(k, 0, n, D[k, MIN] == D[k, MAX])")

# ---- semantic layer (DESIGN 3.3): `sigma` is an arbitrary fixed ghost assignment of the shared domains; Rel(p, t) is the (uninterpreted)
# relation of posted constraint p on a tuple t; V(p) is sigma seen through the variables of p (shared domain value + offset).
define("tv(p)", "ufun_arr('V', var_bounds[p, RG_END] - var_bounds[p, RG_START], p)")
define("rel_holds(p)", "ufun_bool('Rel', p, tv(p))")
define("sol()", "forall(p, 0, P, rel_holds(p))")
define("in_box(S, l)", "forall(d, 0, D, S[l, d, MIN] <= sigma[d] and sigma[d] <= S[l, d, MAX])")
