# Loaded last. The composition theorems (C01 acceptance: #acc variants; C02 exactly-once: #sem/#once/#enum variants) are proved against the CONTRACTS of the
# engine primitives below; a change that breaks one of these clauses voids those proofs, so the clause is tagged with the properties that rest on it and the
# primitive is verified by their checks too. (Found by seeded changes C01e — reset() not re-arming the flags — and C01f — wrong recorded event in value_dom_heuristic —
# which the C01 check did not see although the clauses C07.flags / C09.alternatives failed: those were tagged C03/C07 and C09/C02/C08 only.)
ACC = ["C01", "C02"]   # acceptance: a broken clause lets a non-solution be delivered (which also changes the delivered multiset)
ENUM = ["C02"]         # enumeration only: a lost / repeated solution, every delivered one is still a solution
EXTRA = {
    # branching contract
    "C09.height": ACC, "C09.others": ACC, "C09.below": ACC, "C09.flags": ACC + ["C07"], "C09.events": ACC, "C09.alternatives": ACC, "C09.records_below": ACC, "C09.moved": ACC,
    "C09.nonempty": ENUM, "C09.cover": ENUM, "C09.disjoint": ENUM,
    # choice points
    "C09.wake": ACC + ["C08"], "C09.ok": ACC, "C09.fail": ENUM, "C09.copy": ACC, "C09.push": ACC, "C07": ACC, "C08.queue": ACC, "C08.pop": ACC, "C08.popped": ACC, "C08.none": ACC,
    # (re)initialisation
    "C03.queue": ACC, "C03.top": ACC, "C03.root": ENUM,
}
PRIMITIVES = ["choice_points.py::cp_init", "choice_points.py::cp_put", "choice_points.py::backtrack", "propagators.py::add_propagators", "propagators.py::pop_propagator", "backtrack_solver.py::reset"]
GENERIC = {"C07": ACC, "C08": ACC, "C09": ACC, "C03.queue": ACC, "C03.top": ACC, "C03.root": ENUM}  # loop invariants of the primitives carry the same prefixes
ENGINE = ["choice_points.py::cp_init", "choice_points.py::cp_put", "choice_points.py::backtrack", "propagators.py::add_propagators", "propagators.py::pop_propagator",
          "backtrack_solver.py::reset", "_dom_heuristic.py::"]
for _k, _c in REG.contracts.items():
    if "#" in _k or not any(e in _k for e in ENGINE):
        continue
    _labels = [l for l, _cl, _t in _c.clauses("ensures")]
    _hit = set()
    for _pref, _props in (GENERIC if any(e in _k for e in PRIMITIVES) else EXTRA).items():
        if any(l.startswith(_pref) for l in _labels):
            _c.tags = dict(_c.tags)
            _c.tags[_pref] = sorted(set(_c.tags.get(_pref, [])) | set(_props))
            _hit |= set(_props)
    _c.props = list(_c.props) + [p for p in sorted(_hit) if p not in _c.props]


# An index into the engine's state arrays that is no longer provably in range is not only a C16 matter: a negative index wraps (NumPy / Numba semantics), so the
# write lands on another constraint's flag, another level's box or another queue slot. Found by seeded change C07f (entailment recorded through prop_idx after it
# may have been reset to -1: the last constraint of the problem is disabled), which only failed `bounds.not_entailed_propagators_stack`.
STATE_ARRAYS = {"not_entailed_propagators_stack": ["C07", "C01", "C02"], "triggered_propagators": ["C08", "C01", "C02"],
                "shr_domains_stack": ["C08", "C01", "C02"], "dom_update_stack": ["C09", "C02"], "stacks_top": ["C09", "C02"]}
ENGINE_FILES = ["solvers/bound_consistency_algorithm.py::", "solvers/shaving_consistency_algorithm.py::", "solvers/backtrack_solver.py::solve_one", "solvers/choice_points.py::",
                "propagators/propagators.py::add_propagators", "propagators/propagators.py::pop_propagator", "_dom_heuristic.py::"]
for _k, _c in REG.contracts.items():
    if not any(e in _k for e in ENGINE_FILES):
        continue
    _c.tags = dict(_c.tags)
    for _arr, _props in STATE_ARRAYS.items():
        _ps = [p for p in _props if p in _c.props]
        if _ps:
            _c.tags[_arr] = sorted(set(_c.tags.get(_arr, [])) | set(_ps))
# acceptance invariants J / JL are the engine-level meaning of C07 ("disabling the constraint for the rest of the subtree never admits a violating solution")
for _k, _c in REG.contracts.items():
    if _k.endswith("#acc") and ("bound_consistency_algorithm" in _k or "solve_one" in _k or "shav" in _k):
        _c.props = list(_c.props) + (["C07"] if "C07" not in _c.props else [])
        _c.tags = dict(_c.tags)
        for _pref in ("C01.J", "C01.JL", "C01.J_others", "C01.J_q0", "C01.restored"):
            _c.tags[_pref] = sorted(set(_c.tags.get(_pref, [])) | {"C01", "C07"})
        for _arr in ("not_entailed_propagators_stack",):
            _c.tags[_arr] = sorted(set(_c.tags.get(_arr, [])) | {"C07", "C01"})
