# choice points, queue primitives, value and variable heuristics (C09, C16, C17, C19, C02)
CP = "nucs/solvers/choice_points.py::"
PR = "nucs/propagators/propagators.py::"
HE = "nucs/heuristics/"

S_T = {"shr_domains_stack": "i32[H,D,2]", "not_entailed_propagators_stack": "bool[H,P]", "stacks_top": "u8[1]"}

define("top()", "stacks_top[0]")
define("lvl_same(S, S0, l, D)", "forall(d, 0, D, S[l, d, MIN] == S0[l, d, MIN] and S[l, d, MAX] == S0[l, d, MAX])")
define("has(mask, bit)", "(mask & bit) != 0")

contract(CP + "cp_put", types=S_T, result="none", props=["C09", "C16", "C19", "C07"],
    requires=["H >= 1 and H <= 256", "stacks_top[0] + 1 < H"],
    modifies=["shr_domains_stack", "not_entailed_propagators_stack", "stacks_top"],
    ensures=[
        ("C09.top", "stacks_top[0] == old(stacks_top)[0] + 1"),
        ("C09.copy", "forall(d, 0, D, shr_domains_stack[stacks_top[0], d, MIN] == old(shr_domains_stack)[old(stacks_top)[0], d, MIN] and shr_domains_stack[stacks_top[0], d, MAX] == old(shr_domains_stack)[old(stacks_top)[0], d, MAX])"),
        ("C09.frame", "forall(l, 0, H, implies(l != stacks_top[0], lvl_same(shr_domains_stack, old(shr_domains_stack), l, D)))"),
        ("C07.flags", "forall(p, 0, P, not_entailed_propagators_stack[stacks_top[0], p] == old(not_entailed_propagators_stack)[old(stacks_top)[0], p])"),
        ("C07.flags_frame", "forall(l, 0, H, implies(l != stacks_top[0], forall(p, 0, P, not_entailed_propagators_stack[l, p] == old(not_entailed_propagators_stack)[l, p])))"),
    ],
    tags={"C09": ["C09"], "C07": ["C07", "C09"]})

contract(PR + "add_propagators",
    types={"triggered_propagators": "bool[P]", "not_entailed_propagators": "bool[P]", "triggers": "u8[D,P]", "dom_idx": "int", "events": "int"},
    result="none", props=["C08", "C09", "C16", "C04"],
    requires=["0 <= dom_idx and dom_idx < D", "0 <= events and events < 8"],
    modifies=["triggered_propagators"],
    loops={1: dict(index="i", fingerprint="for range(len(triggered_propagators))", invariant=[
        ("C08.done", "forall(p, 0, i, triggered_propagators[p] == (pre(triggered_propagators)[p] or (not_entailed_propagators[p] and has(triggers[dom_idx, p], events))))"),
        ("C08.todo", "forall(p, i, P, triggered_propagators[p] == pre(triggered_propagators)[p])"),
    ])},
    ensures=[("C08.queue", "forall(p, 0, P, triggered_propagators[p] == (old(triggered_propagators)[p] or (not_entailed_propagators[p] and has(triggers[dom_idx, p], events))))")],
    tags={"C08": ["C08", "C09"]})

contract(PR + "pop_propagator", types={"triggered_propagators": "bool[P]", "previous_prop_idx": "int"}, props=["C08", "C16", "C04"],
    modifies=["triggered_propagators"],
    loops={1: dict(index="i", fingerprint="for range(len(triggered_propagators))", invariant=[
        ("C08.none", "forall(p, 0, i, implies(triggered_propagators[p], p == previous_prop_idx))"),
        ("C08.same", "same_pre(triggered_propagators)"),
    ])},
    ensures=[
        ("C08.range", "result == -1 or (0 <= result and result < P)"),
        ("C08.empty", "implies(result == -1, forall(p, 0, P, implies(triggered_propagators[p], p == previous_prop_idx)) and same(triggered_propagators))"),
        ("C08.pop", "implies(result != -1, old(triggered_propagators)[result] and result != previous_prop_idx and forall(p, 0, P, triggered_propagators[p] == (old(triggered_propagators)[p] and p != result)))"),
    ],
    tags={"C08": ["C08"]})

contract(CP + "backtrack",
    types={"statistics": "i64[13]", "not_entailed_propagators_stack": "bool[H,P]", "dom_update_stack": "u16[H,2]", "stacks_top": "u8[1]",
           "triggered_propagators": "bool[P]", "triggers": "u8[D,P]"},
    result="bool", props=["C09", "C17", "C16", "C07", "C08"],
    requires=["H >= 1 and H <= 256", "stacks_top[0] < H",
              "forall(l, 0, stacks_top[0], dom_update_stack[l, DOM_UPDATE_IDX] < D and dom_update_stack[l, DOM_UPDATE_EVENTS] < 8)"],
    modifies=["statistics", "stacks_top", "triggered_propagators"],
    ensures=[
        ("C09.fail", "implies(old(stacks_top)[0] == 0, result == False and same(stacks_top) and same(statistics) and same(triggered_propagators))"),
        ("C09.ok", "implies(old(stacks_top)[0] != 0, result == True and stacks_top[0] == old(stacks_top)[0] - 1)"),
        ("C17.backtracks", "implies(result, statistics[STATS_IDX_SOLVER_BACKTRACK_NB] == old(statistics)[STATS_IDX_SOLVER_BACKTRACK_NB] + 1 and forall(k, 0, 13, implies(k != STATS_IDX_SOLVER_BACKTRACK_NB, statistics[k] == old(statistics)[k])))"),
        ("C09.wake", "implies(result, forall(p, 0, P, triggered_propagators[p] == (old(triggered_propagators)[p] or (not_entailed_propagators_stack[stacks_top[0], p] and has(triggers[dom_update_stack[stacks_top[0], DOM_UPDATE_IDX], p], dom_update_stack[stacks_top[0], DOM_UPDATE_EVENTS])))))"),
    ],
    tags={"C09": ["C09"], "C17": ["C17"]})
