# MultiprocessingSolver reducers (C11, C17, C18): verified for an ARBITRARY well-formed message sequence, i.e. for every interleaving.
import z3
from nucsvc.values import *

assume("A-DEPS multiprocessing.Queue: per-producer FIFO, no loss, no duplication; Process(...).start() runs its target once")
assume("A-ENV (C11) the messages received are an interleaving of the workers' streams, each ended by exactly one completion marker (well_formed_streams)")

MP = "nucs/solvers/multiprocessing_solver.py::MultiprocessingSolver."


def h_get(ex, st, node, args):
    """get_message(...): by its contract (proved below) it returns the next message of the ghost sequence or raises; here: message number `pos`"""
    pos = st.env["pos"]
    M = st.ghost_env["M"]
    ex.oblige(st, "pre", "C18.will_arrive", pos < M, tags={"C11", "C18"}, line=node.lineno)
    none = z3.Select(st.heap[st.ghost_env["msg_none"].obj.id], zint(pos))
    proc = z3.Select(st.heap[st.ghost_env["msg_proc"].obj.id], zint(pos))
    out = []
    for s, is_none in ex.branch(st, none):
        s.env["pos"] = pos + 1
        row = Arr(st.ghost_env["sol_table"].obj, [("fix", pos), ("rng", 0, st.ghost_env["V"])])
        stats = Arr(st.ghost_env["stats_table"].obj, [("fix", pos), ("rng", 0, 13)])
        out.append((s, (proc, None if is_none else row, stats)))
    return out


def h_noop(ex, st, node, args):
    return None


def h_yield(ex, st, node, args):
    lo = st.env["yielded"]
    n, t = st.heap[lo.id]
    args = [args[0].axes[0][1] if isinstance(args[0], Arr) else args[0]]
    st.heap[lo.id] = (n + 1, z3.Store(t, zint(n), zint(args[0])))
    yi = st.env["yield_idx"]
    st.heap[yi.obj.id] = z3.Store(st.heap[yi.obj.id], zint(args[0]), zint(n))


WF = [
    ("wf.proc", "forall(j, 0, M, 0 <= msg_proc[j] and msg_proc[j] < N)"),
    ("wf.marker", "forall(p, 0, N, 0 <= marker_pos[p] and marker_pos[p] < M and msg_none[marker_pos[p]] and msg_proc[marker_pos[p]] == p)"),
    ("wf.marker_last", "forall(j, 0, M, j <= marker_pos[msg_proc[j]])"),
    ("wf.marker_unique", "forall(j, 0, M, implies(msg_none[j], marker_pos[msg_proc[j]] == j))"),
]
CNT = "count(p, 0, N, marker_pos[p] >= pos)"
INV = [
    ("C11.pos", "0 <= pos and pos <= M"),
    ("C18.done", "forall(p, 0, N, done[p] == (marker_pos[p] < pos))"),
    ("C11.pending", f"nb == {CNT}"),
    ("C11.stats", "forall(p, 0, N, implies(marker_pos[p] < pos, forall(k, 0, 13, self.statistics[p, k] == stats_table[marker_pos[p], k])))"),
]
STEP_HINTS = ["lemma_sum_diff_one(p, 0, N, ite(marker_pos[p] >= pos, 1, 0), ite(marker_pos[p] >= it0(pos), 1, 0), msg_proc[it0(pos)])"]
INIT_HINTS = ["lemma_sum_bounds(p, 0, N, ite(marker_pos[p] >= pos, 1, 0), 1, 1)"]
HEAD_HINTS = ["lemma_sum_bounds(p, 0, N, ite(marker_pos[p] >= pos, 1, 0), 0, 0)"]
EXIT_HINTS = ["lemma_sum_zero(p, 0, N, ite(marker_pos[p] >= pos, 1, 0))"]
COMMON_ENS = [
    ("C11.lastmsg", "implies(M > 0, marker_pos[msg_proc[M - 1]] >= M - 1)"),
    ("C11.consumed", "pos == M"),
    ("C11.final_stats", "forall(p, 0, N, forall(k, 0, 13, self.statistics[p, k] == stats_table[marker_pos[p], k]))"),
]

contract(MP + "solve", types={"self": {"solvers": "list[N]", "statistics": "i64[N,13]"}},
    ghost={"msg_proc": "int[M]", "msg_none": "bool[M]", "marker_pos": "int[N]", "yield_idx": "int[M]", "sol_table": "int[M,V]", "stats_table": "int[M,13]"}, ghost_init={"pos": 0, "yielded": "emptylist"},
    requires=WF, env={"get_message": h_get, "yield": h_yield, "processes.append": h_noop, "processes[*].start": h_noop}, result="none", props=["C11", "C17", "C18", "C04"],
    loops={1: dict(index="i", fingerprint="for enumerate(self.solvers)", invariant=[("C11.nomsg", "pos == 0 and len(yielded) == 0")], also_modifies=["processes"]),
           2: dict(fingerprint="while nb > 0", also_modifies=["pos", "yielded", "yield_idx"], decreases="M - pos", init_hints=INIT_HINTS,
                   invariant=INV + [
                       ("C11.yielded_sorted", "forall(i, 0, len(yielded) - 1, yielded[i] < yielded[i + 1])"),
                       ("C11.yielded_sound", "forall(i, 0, len(yielded), 0 <= yielded[i] and yielded[i] < pos and not msg_none[yielded[i]])"),
                       ("C11.yielded_complete", "forall(j, 0, pos, implies(not msg_none[j], 0 <= yield_idx[j] and yield_idx[j] < len(yielded) and yielded[yield_idx[j]] == j))"),
                   ], hints=HEAD_HINTS, step_hints=STEP_HINTS, exit_hints=EXIT_HINTS)},
    hints=EXIT_HINTS,
    ensures=COMMON_ENS + [
        ("C11.yielded_sorted", "forall(i, 0, len(yielded) - 1, yielded[i] < yielded[i + 1])"),
        ("C11.yielded_sound", "forall(i, 0, len(yielded), 0 <= yielded[i] and yielded[i] < M and not msg_none[yielded[i]])"),
        ("C11.yielded_complete", "forall(j, 0, M, implies(not msg_none[j], 0 <= yield_idx[j] and yield_idx[j] < len(yielded) and yielded[yield_idx[j]] == j))"),
    ],
    tags={"C11": ["C11"], "wf": ["C11"]}, arities=[])


def best_cases(ex, st, tag):
    def none_case(s):
        s.env["best_solution"] = None

    def row_case(s):
        b = fresh_int("best" + tag)
        s.pc.append(z3.And(b >= 0, b < zint(s.ghost_env["M"])))
        s.env["best_solution"] = Arr(s.ghost_env["sol_table"].obj, [("fix", b), ("rng", 0, s.ghost_env["V"])])

    return [none_case, row_case]


interface("Lt", types={"a": "int", "b": "int"}, result="bool", requires=[], ensures=[("lt", "result == (a < b)")], modifies=[])
interface("Gt", types={"a": "int", "b": "int"}, result="bool", requires=[], ensures=[("gt", "result == (a > b)")], modifies=[])

for variant, iface, cmp in (("min", "iface:Lt", "<="), ("max", "iface:Gt", ">=")):
    BEST_INV = [
        ("C11.none", "implies(best_solution is None, forall(j, 0, pos, msg_none[j]))"),
        ("C11.best", f"implies(best_solution is not None, 0 <= rowidx(best_solution) and rowidx(best_solution) < pos and not msg_none[rowidx(best_solution)] and forall(j, 0, pos, implies(not msg_none[j], best_solution[variable_idx] {cmp} sol_table[j, variable_idx])))"),
    ]
    contract(MP + "optimize", variant=variant,
        types={"self": {"solvers": "list[N]", "statistics": "i64[N,13]"}, "variable_idx": "int", "proc_func_name": "opaque", "comparison_func": "opaque"},
        ghost={"msg_proc": "int[M]", "msg_none": "bool[M]", "marker_pos": "int[N]", "sol_table": "int[M,V]", "stats_table": "int[M,13]"}, ghost_init={"pos": 0},
        requires=WF + ["0 <= variable_idx and variable_idx < V"], env={"get_message": h_get, "processes.append": h_noop, "processes[*].start": h_noop}, calls={"comparison_func": iface},
        result="none", props=["C11", "C17", "C18", "C03", "C04"],
        loops={1: dict(index="i", fingerprint="for enumerate(self.solvers)", invariant=[("C11.nomsg", "pos == 0")], also_modifies=["processes"]),
               2: dict(fingerprint="while nb > 0", also_modifies=["pos"], decreases="M - pos", init_hints=INIT_HINTS, var_types={"best_solution": best_cases},
                       invariant=INV + BEST_INV, hints=HEAD_HINTS, step_hints=STEP_HINTS, exit_hints=EXIT_HINTS)},
        hints=EXIT_HINTS,
        ensures=COMMON_ENS + [
            ("C11.infeasible", "(result is None) == forall(j, 0, M, msg_none[j])"),
            ("C11.optimum", f"implies(result is not None, not msg_none[rowidx(result)] and forall(j, 0, M, implies(not msg_none[j], result[variable_idx] {cmp} sol_table[j, variable_idx])))"),
        ],
        tags={"C11": ["C11", "C03"], "wf": ["C11"]}, arities=[])


MPM = "nucs/solvers/multiprocessing_solver.py::"
contract(MPM + "sum_stats", types={"stats": "i64[N,13]", "index": "int"}, props=["C11", "C17"], modifies=[],
    requires=["0 <= index and index < 13"], ensures=[("C17.sum", "result == sum(p, 0, N, stats[p, index])")], tags={"C17": ["C17", "C11"]}, arities=[{"N": 2}])
contract(MPM + "max_stats", types={"stats": "i64[N,13]", "index": "int"}, props=["C11", "C17"], modifies=[],
    requires=["0 <= index and index < 13", "N >= 1"],
    ensures=[("C17.max", "forall(p, 0, N, stats[p, index] <= result) and exists(p, 0, N, stats[p, index] == result)")], tags={"C17": ["C17", "C11"]}, arities=[{"N": 2}])


# ------------------------------------------------------------------ get_message (C18): never blocks without a timeout; a dead unfinished worker is detected
assume("A-ENV (C18) fault model: any worker may be dead (is_alive() false) at any time; a dead worker sends nothing more; Queue.get(timeout=t) returns a pending message or raises queue.Empty after t")


def h_get_timeout(ex, st, node, args):
    has_timeout = any(k.arg == "timeout" for k in node.keywords) or len(node.args) >= 2
    ex.oblige(st, "post", "C18.bounded_wait", bool(has_timeout), tags={"C18"}, line=node.lineno)
    pos, M = st.env["pos"], st.ghost_env["M"]
    out = []
    for s, pending in ex.branch(st, pos < M):
        if pending:
            s2 = s.fork()
            s2.env["pos"] = pos + 1
            out.append((s2, (z3.Select(s.heap[s.ghost_env["msg_proc"].obj.id], zint(pos)), Opaque("solution"), Opaque("statistics"))))
            # the message may also not have arrived within the timeout
            arrived = fresh_bool("arrived")
            s.pc.append(z3.Not(arrived))
            out.append((s, RaiseV("queue.Empty")))
        else:
            out.append((s, RaiseV("queue.Empty")))
    return out


def h_is_alive(ex, st, node, args):
    p = ex.eval(node.func.value.slice, st)  # the index expression of processes[...]
    return z3.Select(st.heap[st.ghost_env["alive"].obj.id], zint(p))


contract(MPM + "get_message", types={"solutions": "opaque", "processes": "list[N]", "done": "bool[N]"},
    ghost={"msg_proc": "int[M]", "alive": "bool[N]"}, ghost_init={"pos": 0}, result="none", props=["C18"],
    requires=["forall(j, 0, M, 0 <= msg_proc[j] and msg_proc[j] < N)"],
    env={"solutions.get": h_get_timeout, "processes[*].is_alive": h_is_alive}, modifies=[],
    loops={1: dict(fingerprint="while True", also_modifies=["pos"], invariant=[("C18.pos", "0 <= pos and pos <= M")],
                   step_ensures=[("C18.dead_worker_detected", "pos < M or forall(p, 0, N, done[p] or alive[p])")]),
           2: dict(index="q", fingerprint="for range(len(processes))", invariant=[("C18.scanned", "forall(p, 0, q, done[p] or alive[p])"), ("C18.pos", "0 <= pos and pos <= M")])},
    ensures=[("C18.message", "0 < pos and pos <= M")],
    tags={"C18": ["C18"]}, arities=[])
