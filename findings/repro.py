"""Native reproductions of the defects found on the pinned tree (run: NUMBA_DISABLE_JIT=1 /venv/bin/python findings/repro.py [Fk ...]).
Each function returns (failed: bool, detail). Used as witnesses for known_findings.json (open and fixed entries)."""
import os, sys, signal
os.environ.setdefault("NUMBA_DISABLE_JIT", "1")
import numpy as np
sys.path.insert(0, os.environ.get("NUCS_REPO", "/repo"))
from nucs.problems.problem import Problem
from nucs.solvers.backtrack_solver import BacktrackSolver
from nucs.propagators.propagators import *
from nucs.heuristics.heuristics import *
from nucs.constants import *

class Timeout(Exception): pass
def _alarm(*a): raise Timeout()
def watchdog(f, secs=3.0):
    signal.signal(signal.SIGALRM, _alarm); signal.setitimer(signal.ITIMER_REAL, secs)
    try: return f()
    finally: signal.setitimer(signal.ITIMER_REAL, 0)

def sols(problem, **kw):
    return sorted(tuple(int(v) for v in s) for s in BacktrackSolver(problem, log_level="ERROR", **kw).find_all())

def F1():
    p = Problem([(0,1),(0,1)]); p.add_propagator(([0,1], ALG_AFFINE_EQ, [2,2,3]))
    s = sols(p); return (len(s) != 0, f"2x+2y=3 on {{0,1}}^2 -> {s}")
def F2():
    d = np.array([[0,1],[0,1]], dtype=np.int32)
    r = [int(f(d.copy(), np.array([0,0,c], dtype=np.int32))) for f,c in ((compute_domains_affine_leq,-1),(compute_domains_affine_geq,1),(compute_domains_affine_eq,1))]
    return (any(x != PROP_INCONSISTENCY for x in r), f"0x+0y<=-1, >=1, ==1 statuses {r}")
def F3():
    d = np.array([[0,5],[0,3],[2,5]], dtype=np.int32); st = compute_domains_max_eq(d, np.array([],dtype=np.int32))
    bad = st != PROP_INCONSISTENCY and not (d[0,0] <= 0)
    d2 = np.array([[-5,0],[-3,0],[-5,-2]], dtype=np.int32); st2 = compute_domains_min_eq(d2, np.array([],dtype=np.int32))
    bad2 = st2 != PROP_INCONSISTENCY and not (d2[0,1] >= 0)
    return (bad or bad2, f"max_eq -> {d.tolist()} (loses (0,3,3)); min_eq -> {d2.tolist()} (loses (0,-3,-3))")
def F5():
    p = Problem([1,2,0]); p.add_propagator(([0,1,2], ALG_NO_SUB_CYCLE, [])); p.add_propagator(([0,1,2], ALG_NO_SUB_CYCLE, []))
    try: s = watchdog(lambda: sols(p)); return (False, f"returned {s}")
    except Timeout: return (True, "two no_sub_cycle on (1,2,0): propagation never returns")
def F6():
    p = Problem([(0,5)],[0,0],[0,0]); p.add_propagator(([0,1], ALG_AFFINE_LEQ, [2,-1,2]))
    s = sols(p); bad = [t for t in s if not 2*t[0]-t[1] <= 2]
    return (bool(bad), f"2v-v<=2 with v twice: violating solutions {bad}")
def F7():
    p = Problem([(0,5)],[0,0],[0,0]); p.add_propagator(([0,1], ALG_AFFINE_LEQ, [2,-1,2])); p.init()
    return (int(p.triggers[0,0]) != EVENT_MASK_MIN_MAX, f"trigger mask of the shared domain = {int(p.triggers[0,0])} (needs MIN|MAX=3)")
def F8():
    def mk():
        p = Problem([(0,2)]*3); p.add_propagator(([0,1,2], ALG_NO_SUB_CYCLE, [])); return p
    a = sols(mk(), dom_heuristic_idx=DOM_HEURISTIC_SPLIT_LOW); b = sols(mk())
    return (a != b, f"split_low {len(a)} solutions vs min_value {len(b)}")
def F9():
    try:
        r = watchdog(lambda: BacktrackSolver(Problem([(0,3)]), log_level="ERROR").minimize(0))
        return (r is None or int(r[0]) != 0, f"minimize returned {r}")
    except Timeout: return (True, "minimize on an unconstrained objective hangs")
    except Exception as e: return (True, f"minimize on an unconstrained objective raises {type(e).__name__}: {e}")
def F10():
    out = []
    for n, h in ((200,128),(300,512)):
        p = Problem([(0,1)]*n)
        try:
            s = BacktrackSolver(p, stack_max_height=h, log_level="ERROR")
            x = next(iter(s.solve())); out.append((n,h,"returned", [int(v) for v in x[:3]]))
        except Exception as e:
            clean = isinstance(e, (ValueError, RuntimeError, MemoryError)) or "stack" in str(e)
            out.append((n,h,"refused" if clean else "crash", type(e).__name__))
    return (any(o[2] != "refused" for o in out), str(out))
def F11():
    p = Problem([(0,1),(0,3)]); ps = p.split(3, 0)
    doms = [q.shr_domains_lst[0] for q in ps]
    return (any(a > b for a,b in doms), f"[0,1] split 3 -> {doms}")
def F13():
    p = Problem([(0,1),(0,3)])
    try: s = watchdog(lambda: sols(p, decision_domains=[0])); return (False, f"{s}")
    except Exception as e: return (True, f"{type(e).__name__}")
def F14():
    p = Problem([(0,5),(0,9)],[1,0],[0,0]); ps = p.split(2,0)
    return (ps[0].shr_domains_lst[1] == [0,9], f"split(2, var 0) with dom_indices [1,0]: {[q.shr_domains_lst for q in ps]}")
def F15():
    p = Problem([(0,1),(0,1)])
    try:
        s = watchdog(lambda: sols(p, var_heuristic_idx=VAR_HEURISTIC_MAX_REGRET, var_heuristic_params=[[1,1],[1,1]]))
        return (len(s) != 4, f"{s}")
    except Exception as e: return (True, f"max_regret with equal costs: {type(e).__name__}")

ALL = dict(F1=F1,F2=F2,F3=F3,F5=F5,F6=F6,F7=F7,F8=F8,F9=F9,F10=F10,F11=F11,F13=F13,F14=F14,F15=F15)
if __name__ == "__main__":
    import json
    names = sys.argv[1:] or list(ALL)
    res = {}
    for n in names:
        try: failed, detail = ALL[n]()
        except Timeout: failed, detail = True, "timeout"
        res[n] = dict(failed=bool(failed), detail=detail)
        print(n, "FAILS" if failed else "ok   ", detail)
    if os.environ.get("REPRO_JSON"): json.dump(res, open(os.environ["REPRO_JSON"], "w"))
