#!/bin/sh
# usage: tools/benign.sh <dir-with-*.diff>  -- every check must stay green on behaviour-preserving edits (4 patches in parallel)
HERE="$(cd "$(dirname "$0")/.." && pwd)"
ls "$1"/*.diff | xargs -P 4 -I{} sh -c 'n=$(basename {} .diff); '"$HERE"'/tools/mutant.sh {} C01 C02 C03 C04 C05 C06 C07 C08 C09 C10 C11 C12 C13 C14 C16 C17 C18 C19 2>&1 | grep -E "VIOLATION|UNDECIDED|CHECKER|patch failed|^C[0-9]+:" | sed "s/^/$n: /"'
