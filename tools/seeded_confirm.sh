#!/bin/bash
# usage: tools/seeded_confirm.sh <id>   -- confirms a seeded change from /tmp/mutout/<id> in a scratch worktree and stores it under seeded/<id>
set -u
ID="$1"; SRC=/tmp/mutout/$ID; WT=/tmp/wt_$ID; OUT=/verif/seeded/$ID
[ -f "$SRC/patch.diff" ] || { echo "$ID: no patch"; exit 2; }
git -C /repo worktree remove --force "$WT" 2>/dev/null; rm -rf "$WT"
git -C /repo worktree add --detach "$WT" HEAD -q || exit 2
cd "$WT"
clean_demo="skip"; 
if [ -f "$SRC/demo.py" ]; then cp "$SRC/demo.py" demo_seed.py; NUMBA_DISABLE_JIT=1 timeout 900 /venv/bin/python demo_seed.py >/tmp/demo_clean_$ID.log 2>&1; clean_demo=$?; fi
if ! git apply "$SRC/patch.diff" 2>/tmp/apply_$ID.log; then
  if ! git apply --3way "$SRC/patch.diff" 2>>/tmp/apply_$ID.log; then echo "$ID: PATCH DOES NOT APPLY"; cd /; git -C /repo worktree remove --force "$WT"; exit 3; fi
fi
git diff > /tmp/patch_$ID.diff
mut_demo="skip"
if [ -f demo_seed.py ]; then NUMBA_DISABLE_JIT=1 timeout 900 /venv/bin/python demo_seed.py >/tmp/demo_mut_$ID.log 2>&1; mut_demo=$?; fi
find . -name '__pycache__' -path './nucs/*' -prune -exec rm -rf {} + 2>/dev/null
timeout 1500 /venv/bin/python -m pytest -q -p no:cacheprovider --timeout=900 -x > /tmp/tests_$ID.log 2>&1; tests=$?
tl=$(tail -1 /tmp/tests_$ID.log)
echo "$ID: demo clean=$clean_demo mutated=$mut_demo tests=$tests ($tl)"
if [ "$clean_demo" = "0" ] && [ "$mut_demo" != "0" ] && [ "$tests" = "0" ]; then
  mkdir -p "$OUT"; cp /tmp/patch_$ID.diff "$OUT/patch.diff"; cp "$SRC/demo.py" "$OUT/demo.py"
  python3 - "$ID" "$tl" <<'PY'
import json,sys
i,tl=sys.argv[1],sys.argv[2]
m=json.load(open(f'/tmp/mutout/{i}/meta.json'))
m['confirmed']=dict(by='tools/seeded_confirm.sh in a scratch git worktree of /repo HEAD', demo_on_unchanged_tree='exit 0', demo_on_changed_tree='exit != 0', test_suite_with_change=tl)
json.dump(m, open(f'/verif/seeded/{i}/meta.json','w'), indent=1)
PY
  echo "$ID: KEPT"
else echo "$ID: NOT KEPT"; fi
cd /; git -C /repo worktree remove --force "$WT"
