#!/bin/sh
# usage: tools/mutant.sh <patch.diff> <Cnn> [<Cnn> ...]  -- runs the checks against a scratch copy of /repo with the patch applied
P="$1"; shift
D=$(mktemp -d /tmp/scrm.XXXXXX)
cp -r /repo/nucs "$D/" && (cd "$D" && patch -p1 -s < "$P") || { echo "patch failed"; rm -rf "$D"; exit 9; }
for c in "$@"; do
  NUCS_REPO="$D" "$(dirname "$0")/../bin/check" "$c" | grep -E 'VIOLATION|UNDECIDED|CHECKER|KNOWN|^C[0-9]+:' | cut -c1-260
  echo "  -> $c rc=$?"
done
rm -rf "$D"
