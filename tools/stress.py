#!/usr/bin/env python3
"""Fragility scan: verify every contract with a much smaller z3 resource budget and list obligations that stop discharging."""
import os, sys
sys.path.insert(0, os.path.join(os.path.dirname(os.path.abspath(__file__)), ".."))
os.environ["NUCSVC_RLIMIT"] = sys.argv[1] if len(sys.argv) > 1 else "12000000"
from nucsvc.check import *  # noqa
import multiprocessing as mp
repo = Repo(); reg = Registry().load_dir(CONTRACT_DIR)
fns = sorted(q for q in reg.contracts if q.split("#")[0] in repo.functions)
ctx = mp.get_context("fork")
with ctx.Pool(16) as pool:
    res = pool.map(task_verify, [(q, None, 60000) for q in fns], chunksize=1)
for q, r in zip(fns, res):
    bad = [o for o in r["obligations"] if o["status"] != "proved"]
    if bad or (r["error"] and "unroll-only" not in r["error"]):
        print(q.split("::")[1], r["error"], [o["id"] for o in bad][:6])
print("done", len(fns))
