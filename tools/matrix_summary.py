#!/usr/bin/env python3
"""usage: tools/matrix_summary.py <matrix log>  -> markdown table (catch matrix) on stdout"""
import collections, json, os, re, sys
L = open(sys.argv[1]).read().splitlines()
res = collections.OrderedDict()
for l in L:
    m = re.match(r'^(C\d\d[a-z]): (.*)$', l)
    if not m:
        continue
    i, t = m.groups()
    r = res.setdefault(i, dict(v=[], u=0, e=0))
    if t.startswith('VIOLATION'):
        r['v'].append(t.split('replay=')[1])
    elif t.startswith('UNDECIDED'):
        r['u'] += 1
    elif t.startswith('CHECKER'):
        r['e'] += 1
print("| id | change (summary) | verdict of the targeted check | first obligation / suite reporting it |")
print("|---|---|---|---|")
for i in sorted(res):
    r = res[i]
    meta = json.load(open(os.path.join(os.path.dirname(os.path.abspath(__file__)), '..', 'seeded', i, 'meta.json')))
    summ = re.sub(r'\s+', ' ', meta.get('summary', ''))[:110]
    ded = [p for p in r['v'] if 'bounded__' not in p]
    bnd = [p for p in r['v'] if 'bounded__' in p]
    if r['v']:
        verdict = 'VIOLATION (' + ' + '.join(x for x in ['deductive' if ded else '', 'bounded' if bnd else ''] if x) + ')'
        first = (ded or bnd)[0]
        first = re.sub(r'^replays/C\d\d/', '', first).replace('.json', '').replace('__', '/')
    else:
        verdict = 'undecided' if r['u'] else ('checker error' if r['e'] else 'MISSED')
        first = ''
    print(f"| {i} | {summ} | {verdict} | `{first[:95]}` |")
