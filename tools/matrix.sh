#!/bin/sh
# usage: tools/matrix.sh [ids...]  -- runs, for every seeded change, the check of the property it targets (scratch copies of /repo, 5 in parallel)
cd "$(dirname "$0")/.."
IDS="${@:-$(ls seeded)}"
echo $IDS | tr ' ' '\n' | xargs -P 5 -I{} sh -c 'p=$(echo {} | cut -c1-3); '"$(pwd)"'/tools/mutant.sh '"$(pwd)"'/seeded/{}/patch.diff $p 2>&1 | sed "s/^/{}: /"'
