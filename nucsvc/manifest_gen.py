"""Regenerates MANIFEST.json from nucsvc/plan.py (python3 -m nucsvc.manifest_gen)."""
import json
import os
import subprocess

from . import plan

ROOT = os.path.dirname(os.path.dirname(os.path.abspath(__file__)))


def main():
    commits = subprocess.run(["git", "-C", "/repo", "log", "--format=%h", "85726e3..HEAD"], capture_output=True, text=True).stdout.split()
    checks = []
    for pid in sorted(plan.CLAIMED):
        c = plan.CLAIMED[pid]
        checks.append(dict(
            property_id=pid,
            quick_cmd=f"bin/check {pid} --tier quick",
            thorough_cmd=f"bin/check {pid} --tier thorough",
            evidence_file=f"evidence/{pid}.json",
            replay_cmd_template="bin/check --replay {path}",
            engine="nucsvc",
            level_claimed=dict(category=plan.LEVEL.get(pid, "other"), text=c["text"], design_ref=c.get("design_ref", "DESIGN.md section 4")),
            level_note=c["note"],
            technique=c["technique"],
        ))
    m = dict(
        version=1,
        setup_cmd="python3-vt -m nucsvc.selftest --setup",
        hooks=dict(guard="NUCS_VERIF", enable="no hooks: contracts are sidecars under /verif/contracts; /repo is re-read with ast on every run",
                   baseline_off_cmd="cd /repo && /venv/bin/python -m pytest -ra -q -p no:cacheprovider --timeout=900 --continue-on-collection-errors",
                   source_commits=commits, add_only=True),
        engines=[dict(name="nucsvc", path="nucsvc/", serves_properties=sorted(plan.CLAIMED),
                      kind_free_text="contract-based deductive verifier: ast -> symbolic execution -> verification conditions -> z3; sidecar contracts in contracts/; unroll-mode counterexamples replayed on the real code by harness/native.py")],
        checks=checks,
        notes="exit codes: 0 held / 1 VIOLATION / 2 undecided / 3 checker error. See DESIGN.md.",
        not_applicable=[dict(property_id=p, reason=r) for p, r in sorted(plan.NOT_APPLICABLE.items())],
    )
    json.dump(m, open(os.path.join(ROOT, "MANIFEST.json"), "w"), indent=1)
    print("wrote MANIFEST.json:", len(checks), "checks,", len(m["not_applicable"]), "not applicable")


if __name__ == "__main__":
    main()
