import json
import os
import sys
import traceback


def main():
    args = sys.argv[1:]
    tier = os.environ.get("VERIF_TIER", "quick")
    if "--tier" in args:
        tier = args[args.index("--tier") + 1]
    seed = int(os.environ.get("VERIF_SEED", "0") or 0)
    from . import decide
    if args and args[0] == "--replay":
        from . import replaycli
        sys.exit(replaycli.main(args[1]))
    if args and args[0] == "--baseline":
        from . import baseline
        sys.exit(baseline.main())
    pid = args[0]
    try:
        rc = decide.check_property(pid, tier, seed)
    except Exception:
        traceback.print_exc()
        print(f"CHECKER-ERROR property={pid} crash")
        rc = 3
    sys.exit(rc)


if __name__ == "__main__":
    main()
