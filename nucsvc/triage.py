import sys, json
from nucsvc.run import *
from nucsvc import cex
repo, reg = load()
name = sys.argv[1]
arity = {k: int(x) for k, x in (a.split("=") for a in sys.argv[2:] if "=" in a)}
v, err, dt = verify_function(repo, reg, name, arity)
fi = repo.find(name); con = reg.contracts[fi.qualname]
n = 0
for ob in v.obligations:
    if ob.status != 'proved' and ob.model and n < 3:
        n += 1
        r = cex.replay(repo, reg, fi, con, ob.model, repo.root)
        print(ob.oid)
        print("  in :", {k: (x['array'] if isinstance(x, dict) else x) for k, x in ob.model['params'].items()}, {k: (x['array'] if isinstance(x, dict) else x) for k, x in ob.model['ghost'].items()})
        print("  out:", [a['array'] if isinstance(a, dict) else a for a in (r['native']['args'] or [])], r['native']['result'], r['native']['error'])
        print("  violated:", r['violated'], r.get('out_of_contract'))
print(err, len(v.obligations))
