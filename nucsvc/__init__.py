"""nucsvc: contract-based deductive verifier for the NuPy-core subset used by yangeorget/nucs.

Reads the real source under $NUCS_REPO (default /repo) with `ast` on every run, binds sidecar contracts
(/verif/contracts), generates verification conditions by symbolic execution and discharges them with z3.
"""
GENERATOR_VERSION = "1"
