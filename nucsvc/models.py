"""C20 model lemmas: for a shipped model built by the REAL constructor at a given instance size, z3 proves
   soundness:     (all posted relations hold on the views)  ==>  definition-level validator
   completeness:  validator and every variable in its declared domain  ==>  all posted relations      (variants without symmetry breaking)
Relations are encoded from docs/source/reference.rst; validators from the problem definitions (CSPLib)."""
import json
import os
import subprocess
import time

import z3

HERE = os.path.dirname(os.path.abspath(__file__))
ROOT = os.path.dirname(HERE)


def dump(requests, repo_root):
    env = dict(os.environ, NUMBA_DISABLE_JIT="1", NUCS_REPO=repo_root, PYTHONDONTWRITEBYTECODE="1")
    p = subprocess.run([os.environ.get("NUCS_PY", "/venv/bin/python"), os.path.join(ROOT, "harness", "dump_model.py")], input=json.dumps(requests), capture_output=True, text=True, env=env, timeout=600)
    if p.returncode != 0:
        raise RuntimeError(p.stderr[-1500:])
    return json.loads(p.stdout)


def rel_z3(alg, x, params):
    n = len(x)
    if alg == "alldifferent":
        return z3.Distinct(*x) if n > 1 else z3.BoolVal(True)
    if alg in ("affine_eq", "affine_leq", "affine_geq"):
        lhs = z3.Sum([params[i] * x[i] for i in range(n)]) if n else z3.IntVal(0)
        return {"affine_eq": lhs == params[n], "affine_leq": lhs <= params[n], "affine_geq": lhs >= params[n]}[alg]
    if alg == "count_eq":
        return z3.Sum([z3.If(x[i] == params[0], 1, 0) for i in range(n - 1)]) == x[n - 1]
    if alg == "exactly_eq":
        return z3.Sum([z3.If(x[i] == params[0], 1, 0) for i in range(n)]) == params[1]
    if alg == "exactly_true":
        return z3.Sum([z3.If(x[i] == 1, 1, 0) for i in range(n)]) == params[0]
    if alg == "lexicographic_leq":
        h = n // 2
        f = z3.BoolVal(True)
        for k in range(h - 1, -1, -1):
            f = z3.Or(x[k] < x[h + k], z3.And(x[k] == x[h + k], f))
        return f
    if alg == "element_lic":
        return z3.Or(*[z3.And(x[n - 1] == k, x[k] == params[0]) for k in range(n - 1)])
    if alg == "element_liv":
        return z3.Or(*[z3.And(x[n - 2] == k, x[k] == x[n - 1]) for k in range(n - 2)])
    if alg == "element_iv":
        return z3.Or(*[z3.And(x[0] == k, x[1] == params[k]) for k in range(len(params))])
    if alg == "max_eq":
        return z3.And(*[x[i] <= x[n - 1] for i in range(n - 1)], z3.Or(*[x[i] == x[n - 1] for i in range(n - 1)]))
    if alg == "dummy":
        return z3.BoolVal(True)
    raise KeyError(alg)


def model_formulas(m):
    s = [z3.Int(f"s{d}") for d in range(len(m["shr_domains"]))]
    x = [s[i] + o for i, o in zip(m["dom_indices"], m["dom_offsets"])]
    dom = z3.And(*[z3.And(s[d] >= a, s[d] <= b) for d, (a, b) in enumerate(m["shr_domains"])])
    rels = z3.And(*[rel_z3(p["alg"], [x[v] for v in p["vars"]], p["params"]) for p in m["propagators"]])
    return s, x, dom, rels


# ---------------------------------------------------------------- definition-level validators (z3)
def v_queens(x, n):
    q = x[:n]
    return z3.And(*[z3.And(q[i] >= 0, q[i] < n) for i in range(n)], *[z3.And(q[i] != q[j], q[i] - q[j] != j - i, q[j] - q[i] != j - i) for i in range(n) for j in range(i + 1, n)])


def v_magic_sequence(x, n):
    return z3.And(*[x[i] == z3.Sum([z3.If(x[j] == i, 1, 0) for j in range(n)]) for i in range(n)])


def v_magic_square(x, n):
    g = [[x[i * n + j] for j in range(n)] for i in range(n)]
    m = n * (n * n - 1) // 2
    return z3.And(z3.Distinct(*x[:n * n]), *[z3.And(c >= 0, c < n * n) for c in x[:n * n]], *[z3.Sum(r) == m for r in g], *[z3.Sum([g[i][j] for i in range(n)]) == m for j in range(n)],
                  z3.Sum([g[i][i] for i in range(n)]) == m, z3.Sum([g[i][n - 1 - i] for i in range(n)]) == m)


def v_latin(x, n, lo=0):
    g = [[x[i * n + j] for j in range(n)] for i in range(n)]
    return z3.And(*[z3.And(c >= lo, c < lo + n) for r in g for c in r], *[z3.Distinct(*r) for r in g if n > 1], *[z3.Distinct(*[g[i][j] for i in range(n)]) for j in range(n) if n > 1])


def v_schur(x, n):
    one = z3.And(*[z3.And(*[z3.Or(x[3 * i + k] == 0, x[3 * i + k] == 1) for k in range(3)], z3.Sum([x[3 * i + k] for k in range(3)]) == 1) for i in range(n)])
    free = z3.And(*[z3.Not(z3.And(x[3 * (a - 1) + k] == 1, x[3 * (b - 1) + k] == 1, x[3 * (a + b - 1) + k] == 1)) for a in range(1, n + 1) for b in range(1, n + 1) if a + b <= n for k in range(3)])
    return z3.And(one, free)


def lemmas(tier):
    big = tier == "thorough"
    L = []
    for n in ((4, 8, 12, 20, 30) if not big else (4, 8, 12, 20, 30, 50)):
        L.append(dict(name=f"queens({n})", module="nucs.examples.queens.queens_problem", cls="QueensProblem", args=[n], validator=lambda x, n=n: v_queens(x, n), complete=True))
    for n in ((4, 6, 8, 10) if not big else (4, 6, 8, 10, 15, 20)):
        L.append(dict(name=f"magic_sequence({n})", module="nucs.examples.magic_sequence.magic_sequence_problem", cls="MagicSequenceProblem", args=[n], validator=lambda x, n=n: v_magic_sequence(x, n), complete=True))
    for n in (3, 4, 5):
        L.append(dict(name=f"magic_square({n},no symmetry breaking)", module="nucs.examples.magic_square.magic_square_problem", cls="MagicSquareProblem", args=[n, False], validator=lambda x, n=n: v_magic_square(x, n), complete=True))
        L.append(dict(name=f"magic_square({n},symmetry breaking)", module="nucs.examples.magic_square.magic_square_problem", cls="MagicSquareProblem", args=[n, True], validator=lambda x, n=n: v_magic_square(x, n), complete=False))
    for n in (3, 5, 8):
        L.append(dict(name=f"latin_square({n})", module="nucs.problems.latin_square_problem", cls="LatinSquareProblem", args=[list(range(n))], validator=lambda x, n=n: v_latin(x, n), complete=True))
    for givens in ([[0, -1, -1], [-1, -1, -1], [-1, -1, -1]], [[-1, 2, -1], [-1, -1, -1], [0, -1, -1]], [[1, -1, -1, -1], [-1, 0, -1, -1], [-1, -1, -1, 3], [-1, -1, -1, -1]]):
        n = len(givens)

        def vg(x, n=n, givens=givens):
            return z3.And(v_latin(x, n), *[x[i * n + j] == givens[i][j] for i in range(n) for j in range(n) if givens[i][j] in range(n)])
        L.append(dict(name=f"latin_square({n},givens={givens})", module="nucs.problems.latin_square_problem", cls="LatinSquareProblem", args=[list(range(n)), givens], validator=vg, complete=True))
    for n in (3, 4):
        L.append(dict(name=f"latin_square_rc({n})", module="nucs.problems.latin_square_problem", cls="LatinSquareRCProblem", args=[n], validator=lambda x, n=n: v_latin(x, n), complete=False))
    for n in ((5, 8, 12) if not big else (5, 8, 12, 20)):
        L.append(dict(name=f"schur_lemma({n},no symmetry breaking)", module="nucs.examples.schur_lemma.schur_lemma_problem", cls="SchurLemmaProblem", args=[n, False], validator=lambda x, n=n: v_schur(x, n), complete=True))
        L.append(dict(name=f"schur_lemma({n},symmetry breaking)", module="nucs.examples.schur_lemma.schur_lemma_problem", cls="SchurLemmaProblem", args=[n, True], validator=lambda x, n=n: v_schur(x, n), complete=False))
    return L


def run(tier, repo_root, timeout_ms=60000):
    L = lemmas(tier)
    ms = dump([dict(module=l["module"], cls=l["cls"], args=l["args"]) for l in L], repo_root)
    res = dict(obligations=0, discharged=0, violations=[], undecided=[], errors=[], samples=[], evidence=[])
    for l, m in zip(L, ms):
        try:
            s, x, dom, rels = model_formulas(m)
        except KeyError as e:
            res["undecided"].append(f"model lemma {l['name']}: relation {e} not encoded")
            continue
        val = l["validator"](x)
        goals = [("sound", z3.Implies(z3.And(dom, rels), val))]
        if l["complete"]:
            goals.append(("complete", z3.Implies(z3.And(dom, val), rels)))
            goals.append(("domains", z3.Implies(val, dom)))  # every valid object lies inside the declared domains
        for kind, g in goals:
            sol = z3.Solver()
            sol.set("timeout", timeout_ms)
            sol.add(z3.Not(g))
            t0 = time.time()
            r = sol.check()
            dt = time.time() - t0
            res["obligations"] += 1
            oid = f"model-lemma/{l['name']}/{kind}"
            if r == z3.unsat:
                res["discharged"] += 1
            elif r == z3.sat:
                mdl = sol.model()
                wit = [mdl.eval(v, model_completion=True).as_long() for v in s]
                path = os.path.join(ROOT, "replays", "C20", oid.replace("/", "__").replace(" ", "_") + ".json")
                os.makedirs(os.path.dirname(path), exist_ok=True)
                json.dump(dict(property="C20", obligation=oid, shared_domain_values=wit, note="assignment of the shared domains that " + ("satisfies every posted relation but is not a valid object" if kind == "sound" else "is a valid object inside the declared domains but violates a posted relation")), open(path, "w"), indent=1)
                res["violations"].append(dict(function=l["name"], obligation=oid, replay=path, found=True))
            else:
                res["undecided"].append(f"{oid}: z3 unknown after {dt:.0f}s")
            if len(res["samples"]) < 4:
                res["samples"].append(dict(obligation=oid, status=str(r), seconds=round(dt, 2), variables=len(s), propagators=len(m["propagators"])))
            res["evidence"].append(dict(obligation=oid, status=str(r), seconds=round(dt, 2)))
    return res
