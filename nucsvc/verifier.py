"""Loops (invariant mode / unroll mode) and per-function verification against a contract."""
import ast
import time

import z3

from .execs import Executor, parse_expr, MAX_UNROLL, _TYPE_RE
from .state import *  # noqa
from .values import *  # noqa


def loops_in_order(fnode):
    out = []

    def rec(stmts):
        for s in stmts:
            if isinstance(s, (ast.For, ast.While)):
                out.append(s)
                rec(s.body)
                rec(s.orelse)
            elif isinstance(s, ast.If):
                rec(s.body)
                rec(s.orelse)
            elif isinstance(s, (ast.With, ast.Try)):
                rec(getattr(s, "body", []))
                for h in getattr(s, "handlers", []):
                    rec(h.body)
                rec(getattr(s, "orelse", []))
                rec(getattr(s, "finalbody", []))

    rec(fnode.body)
    return out


class _AnyName:
    def __contains__(self, item):
        return True


class Verifier(Executor):
    def __init__(self, repo, prover, contracts, fi, key=None):
        super().__init__(repo, prover, contracts, fi)
        self.cur_contract = contracts.contracts.get(key or fi.qualname)
        self.loop_ord = {id(l): k + 1 for k, l in enumerate(loops_in_order(fi.node))}
        self.used_contracts = set()
        self.raised = []
        self.paths = 0
        self.incomplete = []  # reasons why an unroll-mode run is not a complete proof
        self.used_axioms = set()  # axiom schemas (trusted) instantiated by hints of this contract
        self.binding_notes = []  # loop headers that differ from the contract's fingerprint (ordinal binding used)

    # ------------------------------------------------------------------ loops
    def loop_contract(self, node):
        if self.unroll or self.cur_contract is None:
            return None
        if self.module is not self.fi.module:
            # loop of an inlined callee: look up the callee's contract loops by (callee, ordinal)
            return None
        k = self.loop_ord.get(id(node))
        lc = self.cur_contract.loops.get(k)
        if lc is None:
            return None
        fp = lc.get("fingerprint")
        if fp:
            actual = ("for " + ast.unparse(node.iter)) if isinstance(node, ast.For) else ("while " + ast.unparse(node.test))
            if "".join(fp.split()) != "".join(actual.split()):
                if fp.split()[0] != actual.split()[0]:
                    raise VerifError(f"binding failure: loop {k} fingerprint {actual!r} != {fp!r}")
                # same kind of loop at the same ordinal, header rewritten: the loop contract is tried as it is; a proof found this way is a
                # proof (every obligation is still discharged against the real text), a failure is reported as a binding failure, not as a violation
                msg = f"binding failure: loop {k} fingerprint {actual!r} != {fp!r}"
                if msg not in self.binding_notes:
                    self.binding_notes.append(msg)
        return lc

    def iter_spec(self, node, st):
        """-> (count, bind(state, k)) for a for-loop"""
        it = self.eval(node.iter, st)
        tgt = node.target
        if isinstance(it, tuple) and it and it[0] == "range" and len(it) == 4:
            lo, hi, step = as_int(it[1]), as_int(it[2]), as_int(it[3])
            if not (isinstance(step, int) and step != 0):
                raise Unsupported("range with a symbolic step")
            if not (isinstance(lo, int) and isinstance(hi, int)):
                cnt = self.floordiv(st, (hi - lo + (step - 1 if step > 0 else step + 1)), step)
                n = z3.If(zint(cnt) >= 0, zint(cnt), 0)
            else:
                n = len(range(lo, hi, step))

            def bind(s, k, lo=lo, step=step):
                self.assign(tgt, lo + k * step, s)

            return n, bind
        if isinstance(it, tuple) and it and it[0] == "range":
            lo, hi = (0, it[1]) if len(it) == 2 else (it[1], it[2])
            lo, hi = as_int(lo), as_int(hi)
            n = hi - lo
            if isinstance(n, int):
                n = max(n, 0)
            else:
                n = z3.If(n >= 0, n, 0)

            def bind(s, k, lo=lo):
                self.assign(tgt, lo + k, s)

            return n, bind
        if isinstance(it, tuple) and it and it[0] == "enumerate":
            arr = it[1]

            def bind(s, k, arr=arr):
                self.assign(tgt, (k, self.elem(s, arr, k)), s)

            return self.count_of(st, arr), bind
        if isinstance(it, (Arr, AExpr, ListObj)) or isinstance(it, tuple):

            def bind(s, k, arr=it):
                self.assign(tgt, self.elem(s, arr, k), s)

            return self.count_of(st, it), bind
        raise Unsupported(f"for-loop over {type(it).__name__}")

    def count_of(self, st, arr):
        if isinstance(arr, (Arr, AExpr)):
            return arr.shape[0]
        if isinstance(arr, ListObj):
            return st.heap[arr.id][0]
        return len(arr)

    def elem(self, st, arr, k):
        saved = self.check_bounds
        self.check_bounds = False
        try:
            if isinstance(arr, (Arr, AExpr)):
                return self.index(st, arr, [k])
            if isinstance(arr, ListObj):
                return z3.Select(st.heap[arr.id][1], zint(k))
            return arr[k]
        finally:
            self.check_bounds = saved

    def write_set(self, stmts, st, env=None):
        """(names, array/list objects) the statements may write"""
        env = env if env is not None else st.env
        names, objs = set(), {}

        def add_obj(v):
            if isinstance(v, Arr):
                objs[v.obj.id] = v.obj
            elif isinstance(v, ListObj):
                objs[v.id] = v

        def base_name(e):
            while isinstance(e, (ast.Subscript, ast.Attribute)):
                e = e.value
            return e.id if isinstance(e, ast.Name) else None

        def add_all(v):
            if isinstance(v, dict):
                for x in v.values():
                    add_all(x)
            else:
                add_obj(v)

        def obj_of_expr(e, root):
            """the object designated by a name / attribute chain / subscript of one (self.problem.triggers, self.stacks_top[0])"""
            while isinstance(e, ast.Subscript):
                e = e.value
            chain = []
            while isinstance(e, ast.Attribute):
                chain.append(e.attr)
                e = e.value
            if not isinstance(e, ast.Name):
                return
            if not chain or e.id not in env:
                obj_of_name(e.id, root)
                return
            v = env[e.id]
            for a in reversed(chain):
                if isinstance(v, dict) and a in v:
                    v = v[a]
                else:
                    add_all(env[e.id])  # unknown attribute path: everything reachable may be written
                    return
            add_all(v)

        def obj_of_name(nm, root):
            if nm in env:
                add_all(env[nm]) if isinstance(env[nm], dict) else add_obj(env[nm])
                return
            # defined inside the analysed statements: follow its defining expressions
            for sub in ast.walk(root):
                src = None
                if isinstance(sub, ast.Assign) and any(isinstance(t, ast.Name) and t.id == nm for t in sub.targets):
                    src = sub.value
                elif isinstance(sub, ast.For):
                    tn = [n.id for n in ast.walk(sub.target) if isinstance(n, ast.Name)]
                    if nm in tn:
                        src = sub.iter
                if src is not None:
                    for n in ast.walk(src):
                        if isinstance(n, ast.Name) and n.id in env:
                            add_obj(env[n.id])

        root = ast.Module(body=list(stmts), type_ignores=[])
        for sub in ast.walk(root):
            if isinstance(sub, (ast.Assign, ast.AugAssign, ast.AnnAssign, ast.For, ast.NamedExpr)):
                targets = sub.targets if isinstance(sub, ast.Assign) else [sub.target]
                for t in targets:
                    for n in ast.walk(t):
                        if isinstance(n, ast.Name) and isinstance(n.ctx, ast.Store):
                            names.add(n.id)
                    if isinstance(t, ast.Subscript):
                        obj_of_expr(t, root)
                    if isinstance(t, (ast.Tuple, ast.List)):
                        for e in t.elts:
                            if isinstance(e, ast.Subscript):
                                obj_of_expr(e, root)
            if isinstance(sub, ast.Call):
                f = sub.func
                if isinstance(f, ast.Attribute) and f.attr in ("insert", "append", "fill", "sort"):
                    obj_of_expr(f.value, root)
                elif isinstance(f, ast.Name):
                    callee = None
                    try:
                        if f.id in env and isinstance(env[f.id], (FuncRef, Opaque)):
                            callee = self.resolve_callee(sub, st)
                        elif self.repo.resolve(self.module, f.id) is not None:
                            callee = self.resolve_callee(sub, st)
                    except VerifError:
                        callee = ("unknown", None)
                    if callee is None:
                        continue
                    kind, target = callee
                    con = None
                    fi = None
                    if kind == "iface":
                        con = self.contracts.interfaces[target.split(":", 1)[1]]
                        pn = list(con.types.keys())
                    elif kind == "func":
                        fi = self.repo.functions[target.split("#")[0]]
                        con = self.contracts.contracts.get(target)
                        pn = [a.arg for a in fi.node.args.args]
                    else:
                        pn = []
                    mods = con.modifies if con is not None and con.modifies is not None else None
                    for k, a in enumerate(sub.args):
                        if base_name(a) is None:
                            continue
                        if mods is not None and k < len(pn) and pn[k] not in mods:
                            continue
                        obj_of_expr(a, root)
        gc = getattr(self.cur_contract, "extra", {}).get("ghost_calls", {}) if self.cur_contract else {}
        for sub in ast.walk(root):
            if isinstance(sub, ast.Call) and isinstance(sub.func, ast.Name) and sub.func.id in gc:
                names.add(gc[sub.func.id])
        return names, objs

    def ghost_updates(self, st, lc):
        """ghost assignments performed at the end of every completed iteration (witnesses of existential invariants)"""
        for gname, gexpr in (lc.get("ghost_updates") or {}).items():
            st.env[gname] = self.eval_spec(gexpr, st, {})

    def also_modifies(self, lc, st, names, objs):
        for nm in lc.get("also_modifies", []):
            v = st.env.get(nm)
            if isinstance(v, Arr):
                objs[v.obj.id] = v.obj
            elif isinstance(v, ListObj):
                objs[v.id] = v
            else:
                names.add(nm)

    def havoc_cases(self, st, names, objs, tag, lc):
        """havoc the write set; variables of a declared sum type (lc['var_types']) fork into one state per case"""
        self.havoc(st, names, objs, tag)
        states = [st]
        for nm, handler in (lc.get("var_types") or {}).items():
            if nm in names:
                nxt = []
                for s in states:
                    for alt in handler(self, s, tag):
                        s2 = s.fork()
                        alt(s2)
                        nxt.append(s2)
                states = nxt
        # a variable that is None at loop entry and is written in the loop (an optional scalar such as `best_idx = None`): at the loop head it is
        # None or an arbitrary integer (over-approximation; a use as anything else is an Unsupported error at that use)
        for nm in sorted(names):
            if nm in st.env and st.env[nm] is None and nm not in (lc.get("var_types") or {}) and nm in getattr(self, "optional_int_names", lambda lc_: ())(lc):
                nxt = []
                for s in states:
                    s2 = s.fork()
                    s2.env[nm] = fresh_int(nm + tag)
                    nxt.extend([s, s2])
                states = nxt
        for s in states:
            for nm in names:
                if nm in s.env and s.env[nm] is None and nm in getattr(self, "optional_int_names", lambda lc_: ())(lc):
                    continue
                if nm in s.env and not is_scalar(s.env[nm]) and nm not in (lc.get("var_types") or {}):
                    v = s.env[nm]
                    if v is None or isinstance(v, (tuple, dict)):
                        raise Unsupported(f"loop writes variable {nm!r} of a non-scalar type without a var_types declaration")
                    if isinstance(v, (Arr, AExpr, Opaque, FuncRef)):
                        del s.env[nm]  # must be re-assigned before use in the iteration
        return states

    def optional_int_names(self, lc):
        """names the loop contract declares as optional integers: lc['optional_ints'] (a list), or every undeclared None-initialised name when lc['optional_ints'] == '*'"""
        oi = lc.get("optional_ints", "*")
        return _AnyName() if oi == "*" else tuple(oi)

    def havoc(self, st, names, objs, tag):
        for nm in names:
            if nm in st.env:
                v = st.env[nm]
                if is_boolv(v):
                    st.env[nm] = fresh_bool(nm + tag)
                elif is_scalar(v):
                    st.env[nm] = fresh_int(nm + tag)
        for oid, o in objs.items():
            if isinstance(o, ArrObj):
                st.heap[oid] = o.fresh_term(tag)
                self.assume_dtype(st, o)
            else:
                n = fresh_int("len" + tag)
                st.pc.append(n >= 0)
                st.heap[oid] = (n, z3.Const(fresh_name("list" + tag), z3.ArraySort(INT, INT)))

    def assume_dtype(self, st, o):
        if o.dtype in DTYPE_RANGE:
            lo, hi = DTYPE_RANGE[o.dtype]
            ks = [z3.Int(fresh_name("d")) for _ in o.shape]
            e = z3.Select(st.heap[o.id], *ks)
            st.pc.append(z3.ForAll(ks, z3.And(e >= lo, e <= hi), patterns=[e]))

    def check_invariants(self, st, lc, kind, extra_env, line):
        ok = True
        for j, inv in enumerate(lc.get("invariant", [])):
            label, clause = inv if isinstance(inv, tuple) else (f"inv{j}", inv)
            tags = set(self.tags_for(label))
            g = self.eval_spec(clause, st, extra_env)
            ob = self.oblige(st, kind, label, g, tags=tags, line=line)
            ok = ok and ob.status == "proved"
        return ok

    def assume_invariants(self, st, lc, extra_env):
        for inv in lc.get("invariant", []):
            clause = inv[1] if isinstance(inv, tuple) else inv
            st.assume(self.eval_spec(clause, st, extra_env))

    def apply_hints(self, st, hints, extra_env):
        for h in hints or []:
            node = parse_expr(h)
            inner = node
            while isinstance(inner, ast.Call) and isinstance(inner.func, ast.Name) and inner.func.id == "forall" and len(inner.args) == 4:
                inner = inner.args[3]  # forall(x, lo, hi, axiom_...(...)): a family of instances
            if inner is not node and isinstance(inner, ast.Call) and isinstance(inner.func, ast.Name) and inner.func.id.startswith("axiom_"):
                if inner.func.id not in self.contracts.macros or inner.func.id not in getattr(self.contracts, "axioms", {}):
                    raise VerifError(f"undeclared axiom schema: {inner.func.id}")
                self.used_axioms.add(inner.func.id)
                st.assume(self.eval_spec(node, st, extra_env))
                continue
            if isinstance(node, ast.Call) and isinstance(node.func, ast.Name) and node.func.id.startswith("axiom_"):
                # instance of a declared, UNPROVED axiom schema (a macro of the specification layer, listed among the assumptions of the evidence)
                if node.func.id not in self.contracts.macros or node.func.id not in getattr(self.contracts, "axioms", {}):
                    raise VerifError(f"undeclared axiom schema: {node.func.id}")
                self.used_axioms.add(node.func.id)
                st.assume(self.eval_spec(node, st, extra_env))
                continue
            if not (isinstance(node, ast.Call) and isinstance(node.func, ast.Name) and node.func.id.startswith("lemma_")):
                raise VerifError(f"hint is not a lemma instance: {h}")
            st.assume(self.eval_spec(node, st, extra_env))

    def apply_cuts(self, s, lc, env, line):
        """hints (lemma instances) then cuts: intermediate facts proved from the hints and kept; with scoped_hints the lemma instances
        themselves are dropped afterwards (smaller, more stable queries for the body)"""
        cuts = lc.get("cuts") or []
        if cuts and lc.get("scoped_hints"):
            h = s.fork()
            self.apply_hints(h, lc.get("hints"), env)
            for lbl, clause in cuts:
                g = self.eval_spec(clause, h, env)
                self.oblige(h, "assert", lbl, g, tags=self.tags_for(lbl), line=line)
                s.assume(self.eval_spec(clause, s, env))
            return
        self.apply_hints(s, lc.get("hints"), env)
        for lbl, clause in cuts:
            self.oblige(s, "assert", lbl, self.eval_spec(clause, s, env), tags=self.tags_for(lbl), line=line)

    def tags_for(self, label):
        tags = set(self.cur_tags)
        if self.cur_contract:
            for pref, props in self.cur_contract.tags.items():
                if label.startswith(pref):
                    tags |= set(props)
        return tags

    def s_For(self, node, st):
        lc = self.loop_contract(node)
        n, bind = self.iter_spec(node, st)
        if lc is None:
            return self.unroll_for(node, st, n, bind)
        line = node.lineno
        idx = lc.get("index", "_i")
        names, objs = self.write_set(node.body + [ast.Assign(targets=[node.target], value=ast.Constant(0), lineno=line)], st)
        self.also_modifies(lc, st, names, objs)
        pre = st.snapshot()
        st.pre_stack = st.pre_stack + [pre]
        genv = {"_n": n}
        # init
        self.apply_hints(st, lc.get("init_hints"), {idx: 0, **genv})
        self.check_invariants(st, lc, "inv-init", {idx: 0, **genv}, line)
        results = []
        # arbitrary iteration
        for s in self.havoc_cases(st.fork(), names, objs, "@L%d" % line, lc):
            k = fresh_int(idx)
            s.pc.append(z3.And(k >= 0, k < zint(n)))
            self.assume_invariants(s, lc, {idx: k, **genv})
            if not self.prover.feasible(self.axioms + s.pc):
                continue
            bind(s, k)
            s.pre_stack = s.pre_stack + [("it0", s.snapshot())]
            self.apply_cuts(s, lc, {idx: k, **genv}, line)
            for s2, out in self.exec_block(node.body, s):
                if out[0] in ("next", "continue"):
                    self.ghost_updates(s2, lc)
                    self.apply_hints(s2, lc.get("step_hints"), {idx: k, **genv})
                    self.check_invariants(s2, lc, "inv-step", {idx: k + 1, **genv}, line)
                elif out[0] == "break":
                    s2.pre_stack = s2.pre_stack[:-2]
                    results.append((s2, ("next",)))
                else:
                    s2.pre_stack = s2.pre_stack[:-2]
                    results.append((s2, out))
        # exit
        for e in self.havoc_cases(st.fork(), names, objs, "@X%d" % line, lc):
            self.assume_invariants(e, lc, {idx: n, **genv})
            self.apply_hints(e, lc.get("exit_hints"), {idx: n, **genv})
            e.pre_stack = e.pre_stack[:-1]
            if self.prover.feasible(self.axioms + e.pc):
                if node.orelse:
                    results.extend(self.exec_block(node.orelse, e))
                else:
                    results.append((e, ("next",)))
        return results

    def unroll_for(self, node, st, n, bind):
        results = []
        frontier = [st]
        k = 0
        while frontier:
            if k > (MAX_UNROLL if not isinstance(n, int) else 10 ** 6):
                self.incomplete.append(f"for-loop at line {node.lineno} not exhausted after {k} iterations")
                break
            nxt = []
            for s in frontier:
                if isinstance(n, int):
                    cont = [(s, k < n)]
                else:
                    if not self.unroll:
                        raise Unsupported(f"loop at line {node.lineno} has a symbolic trip count and no contract")
                    cont = self.branch(s, k < n)
                for s1, go in cont:
                    if not go:
                        if node.orelse:
                            results.extend(self.exec_block(node.orelse, s1))
                        else:
                            results.append((s1, ("next",)))
                        continue
                    bind(s1, k)
                    for s2, out in self.exec_block(node.body, s1):
                        if out[0] in ("next", "continue"):
                            nxt.append(s2)
                        elif out[0] == "break":
                            results.append((s2, ("next",)))
                        else:
                            results.append((s2, out))
            frontier = nxt
            k += 1
            if len(frontier) + len(results) > 4000:
                raise Unsupported("path explosion in unrolled loop")
        return results

    def s_While(self, node, st):
        lc = self.loop_contract(node)
        if lc is None:
            if not self.unroll:
                raise Unsupported(f"while-loop at line {node.lineno} without contract")
            return self.unroll_while(node, st)
        line = node.lineno
        names, objs = self.write_set(node.body + [ast.Expr(value=node.test, lineno=line)], st)
        self.also_modifies(lc, st, names, objs)
        pre = st.snapshot()
        st.pre_stack = st.pre_stack + [pre]
        self.apply_hints(st, lc.get("init_hints"), {})
        self.check_invariants(st, lc, "inv-init", {}, line)
        results = []
        dec = lc.get("decreases")
        iter_states = []
        for s in self.havoc_cases(st.fork(), names, objs, "@L%d" % line, lc):
            self.assume_invariants(s, lc, {})
            iter_states.extend(self.eval_multi(node.test, s))
        for s0, c in iter_states:
            for s1, go in self.branch(s0, c):
                if not go:
                    continue
                s1.pre_stack = s1.pre_stack + [("it0", s1.snapshot())]
                m0 = self.eval_measure(dec, s1) if dec else None
                self.apply_hints(s1, lc.get("hints"), {})
                for s2, out in self.exec_block(node.body, s1):
                    if out[0] in ("next", "continue"):
                        self.ghost_updates(s2, lc)
                        self.apply_hints(s2, lc.get("step_hints"), {})
                        for lbl, clause in lc.get("step_ensures", []):
                            self.oblige(s2, "post", lbl, self.eval_spec(clause, s2, {}), tags=self.tags_for(lbl), line=line)
                        self.check_invariants(s2, lc, "inv-step", {}, line)
                        if dec:
                            m1 = self.eval_measure(dec, s2)
                            self.oblige(s2, "term", "decreases", self.lex_less(m1, m0), tags={"C04"}, line=line)
                    elif out[0] == "break":
                        s2.pre_stack = s2.pre_stack[:-2]
                        results.append((s2, ("next",)))
                    else:
                        if out[0] == "return":
                            self.apply_hints(s2, lc.get("return_hints"), {})  # lemma / axiom instances for a return from inside the loop (it0 still in scope)
                        s2.pre_stack = s2.pre_stack[:-2]
                        results.append((s2, out))
        # exit: invariant and not test
        exit_states = []
        for e in self.havoc_cases(st.fork(), names, objs, "@X%d" % line, lc):
            self.assume_invariants(e, lc, {})
            self.apply_hints(e, lc.get("exit_hints"), {})
            exit_states.extend(self.eval_multi(node.test, e))
        for e0, c in exit_states:
            for e1, go in self.branch(e0, c):
                if go:
                    continue
                e1.pre_stack = e1.pre_stack[:-1]
                results.append((e1, ("next",)))
        return results

    def eval_measure(self, dec, st):
        decs = dec if isinstance(dec, (list, tuple)) else [dec]
        return [as_int(self.eval_spec(d, st, {})) for d in decs]

    def lex_less(self, m1, m0):
        """m1 <lex m0 with every component bounded below by 0"""
        alts = []
        for k in range(len(m0)):
            eqs = [v_eq(m1[j], m0[j]) for j in range(k)]
            alts.append(b_and(*eqs, m1[k] < m0[k], m0[k] >= 0))
        return b_or(*alts)

    def unroll_while(self, node, st):
        results = []
        frontier = [st]
        k = 0
        while frontier:
            if k > MAX_UNROLL:
                self.incomplete.append(f"while-loop at line {node.lineno} not exhausted after {k} iterations")
                break
            nxt = []
            for s in frontier:
                for s0, c in self.eval_multi(node.test, s):
                    for s1, go in self.branch(s0, c):
                        if not go:
                            results.append((s1, ("next",)))
                            continue
                        for s2, out in self.exec_block(node.body, s1):
                            if out[0] in ("next", "continue"):
                                nxt.append(s2)
                            elif out[0] == "break":
                                results.append((s2, ("next",)))
                            else:
                                results.append((s2, out))
            frontier = nxt
            k += 1
        return results

    # ------------------------------------------------------------------ symbolic inputs
    def fresh_value(self, t, name, st, syms):
        t = t.strip()
        if t == "int":
            return fresh_int(name)
        if t == "bool":
            return fresh_bool(name)
        if t == "none":
            return None
        if t == "opaque":
            return Opaque(name)
        m = _TYPE_RE.match(t)
        if not m:
            raise VerifError(f"bad type {t!r} for {name}")
        dtype = m.group(1)
        dims = []
        for d in [x.strip() for x in m.group(2).split(",")]:
            if d.lstrip("-").isdigit():
                dims.append(int(d))
            else:
                if d not in syms:
                    syms[d] = fresh_int(d)
                    st.pc.append(syms[d] >= 0)
                dims.append(syms[d])
        if dtype == "list":
            lo = ListObj(name)
            st.heap[lo.id] = (dims[0], z3.Const(fresh_name(name), z3.ArraySort(INT, INT)))
            return lo
        obj = ArrObj(name, dtype, dims)
        term = obj.fresh_term()
        st.heap[obj.id] = term
        if dtype in DTYPE_RANGE:
            lo, hi = DTYPE_RANGE[dtype]
            ks = [z3.Int(fresh_name("d")) for _ in dims]
            e = z3.Select(term, *ks)
            st.pc.append(z3.ForAll(ks, z3.And(e >= lo, e <= hi)))
        return Arr(obj)

    # ------------------------------------------------------------------ whole function
    def verify(self, arity=None, pin=None):
        """run the function against its contract. arity: dict shape symbol -> int (unroll mode) or None (invariant mode)"""
        con = self.cur_contract
        fi = self.fi
        self.unroll = arity is not None
        st = State()
        syms = dict(arity or {})
        pins = syms.pop("_pin", {})
        params = [a.arg for a in fi.node.args.args]
        for p in params:
            if p == "self" and "self" not in con.types:
                st.env[p] = Opaque("self")
                continue
            t = con.types.get(p)
            if t is None:
                raise VerifError(f"no type for parameter {p}")
            if isinstance(t, dict):
                def mk(d, prefix):
                    return {k: (mk(v, f"{prefix}.{k}") if isinstance(v, dict) else self.fresh_value(v, f"{prefix}.{k}", st, syms)) for k, v in d.items()}
                st.env[p] = mk(t, p)
            else:
                st.env[p] = self.fresh_value(t, p, st, syms)
        for pname, content in pins.items():
            v = st.env.get(pname)
            if isinstance(v, Arr):
                import itertools as _it
                import numpy as _np
                a = _np.array(content, dtype=object).reshape(v.obj.shape)
                isb = v.obj.dtype == "bool"
                ks = [z3.Int(fresh_name("p")) for _ in v.obj.shape]
                term = z3.K(INT, z3.BoolVal(False) if isb else z3.IntVal(0)) if len(ks) == 1 else z3.Lambda(ks, z3.BoolVal(False) if isb else z3.IntVal(0))
                for ix in _it.product(*[range(d) for d in v.obj.shape]):
                    term = z3.Store(term, *[z3.IntVal(i) for i in ix], z3.BoolVal(bool(a[ix])) if isb else z3.IntVal(int(a[ix])))
                st.heap[v.obj.id] = term
        for g, t in con.ghost.items():
            st.ghost_env[g] = self.fresh_value(t, g, st, syms)
        st.ghost_env.update(syms)
        self.pin = pin
        self.concrete_runs = []
        if pin is not None:
            import itertools as _it
            for name, enc in list(pin.get("params", {}).items()) + list(pin.get("ghost", {}).items()):
                v = st.env.get(name, st.ghost_env.get(name))
                if isinstance(v, Arr) and isinstance(enc, dict):
                    import numpy as _np
                    a = _np.array(enc["array"], dtype=object).reshape(enc["shape"])
                    for ix in _it.product(*[range(s) for s in enc["shape"]]):
                        c = z3.Select(st.heap[v.obj.id], *[z3.IntVal(i) for i in ix])
                        st.pc.append(c == (z3.BoolVal(bool(a[ix])) if v.obj.dtype == "bool" else z3.IntVal(int(a[ix]))))
                elif is_sym(v) and isinstance(enc, (int, bool)):
                    st.pc.append(v == enc)
        st.old = st  # requires are evaluated on the entry state
        self.cur_tags = set()
        for label, clause, tags in con.clauses("requires"):
            st.pc.append(zbool(truth(self.eval_spec(clause, st, {}))))
        for d in con.extra.get("defs", []):
            if "ufun_" not in d and "tv(" not in d and "sol()" not in d:
                raise VerifError("defs may only define uninterpreted specification functions")
            st.pc.append(zbool(truth(self.eval_spec(d, st, {}))))
        if not self.prover.feasible(self.axioms + st.pc, timeout_ms=10000):
            raise VerifError("vacuous contract: requires is unsatisfiable")
        for gname in set(con.extra.get("ghost_calls", {}).values()):
            st.env[gname] = 0
        for gname, gval in con.extra.get("ghost_init", {}).items():
            if isinstance(gval, str) and gval.startswith("@"):
                gval = st.ghost_env[gval[1:]]
            if isinstance(gval, str) and gval == "emptylist":
                lo_ = ListObj(gname)
                st.heap[lo_.id] = (0, z3.K(INT, z3.IntVal(0)))
                gval = lo_
            st.env[gname] = gval
        for gname in con.ghost:
            st.env.setdefault(gname, st.ghost_env[gname])
        st.old = st.snapshot()
        st.old.old = st.old
        self.entry = st.old
        outcomes = self.exec_block(fi.node.body, st)
        nret = 0
        for s, out in outcomes:
            if out[0] == "raise":
                self.raised.append(s)
                continue
            if out[0] not in ("return", "next"):
                raise Unsupported(f"{out[0]} outside loop")
            nret += 1
            res = out[1] if out[0] == "return" else None
            self.line = out[2] if out[0] == "return" else fi.last_line
            self.check_post(s, res, con)
        self.paths = nret
        return self.obligations

    def check_post(self, s, res, con):
        if isinstance(res, AExpr):
            res = self.materialize(s, res, "result")
        extra = {"result": res}
        if getattr(self, "pin", None) is not None:
            self.record_concrete(s, res)
        self.apply_hints(s, con.hints, extra)
        line = self.line
        for label, clause, tags in con.clauses("ensures"):
            g = self.eval_spec(clause, s, extra)
            self.oblige(s, "post", label, g, tags=set(tags) | self.tags_for(label), line=line)
        # frame: array parameters outside `modifies` are untouched
        if con.modifies is not None:
            for p, v in self.entry.env.items():
                if isinstance(v, Arr) and p not in con.modifies:
                    if p not in (self.fi.params if hasattr(self.fi, "params") else ()) and any(isinstance(w, Arr) and w.obj is v.obj for q, w in self.entry.env.items() if q in con.modifies):
                        continue  # a ghost name bound (ghost_init "@x") to a ghost array that the contract lets the loops update
                    same = s.heap[v.obj.id] is self.entry.heap[v.obj.id]
                    self.oblige(s, "frame", p, True if same else (s.heap[v.obj.id] == self.entry.heap[v.obj.id]), tags={"C13"}, line=line)

    # ------------------------------------------------------------------ counter-models (unroll mode only: paths from entry, no havoc)
    def oblige(self, st, kind, label, goal, tags=None, line=None):
        ob = super().oblige(st, kind, label, goal, tags=tags, line=line)
        if self.unroll and ob.status == "failed" and getattr(self, "entry", None) is not None:
            g = truth(goal)
            if st.guards:
                g = b_implies(b_and(*st.guards), g)
            ob.model = self.small_model(st, g)
        elif self.unroll and ob.status == "unknown" and getattr(self, "entry", None) is not None and self.unknown_models < 3:
            # nonlinear goals: z3 often cannot decide the unbounded query but finds a model once the inputs are boxed
            self.unknown_models += 1
            g = truth(goal)
            if st.guards:
                g = b_implies(b_and(*st.guards), g)
            m = self.small_model(st, g, bounds=(2, 4, 8))
            if m is not None:
                ob.status = "failed"
                ob.model = m
        return ob

    unknown_models = 0

    def input_cells(self):
        cells = []
        e = self.entry
        for src in (e.env, e.ghost_env):
            for name, v in src.items():
                if isinstance(v, Arr) and all(isinstance(s, int) for s in v.obj.shape):
                    import itertools as _it
                    for ix in _it.product(*[range(s) for s in v.obj.shape]):
                        cells.append(z3.Select(e.heap[v.obj.id], *[z3.IntVal(i) for i in ix]))
                elif is_sym(v) and z3.is_int(v):
                    cells.append(v)
        return [c for c in cells if z3.is_int(c)]

    def small_model(self, st, goal, bounds=(3, 16, 1000, None)):
        cells = self.input_cells()
        for bound in bounds:
            s = z3.Solver()
            s.set("timeout", 10000)
            for f in self.axioms + st.pc:
                s.add(f)
            s.add(z3.Not(zbool(goal)))
            if bound is not None:
                for c in cells:
                    s.add(c >= -bound, c <= bound)
            if s.check() == z3.sat:
                return self.extract_inputs(s.model())
        return None

    def extract_inputs(self, model):
        import itertools as _it
        e = self.entry
        out = {"params": {}, "ghost": {}}

        def val(x):
            r = model.eval(x, model_completion=True)
            if z3.is_int_value(r):
                return r.as_long()
            if z3.is_true(r):
                return True
            if z3.is_false(r):
                return False
            return str(r)

        for key, src in (("params", e.env), ("ghost", e.ghost_env)):
            for name, v in src.items():
                if isinstance(v, Arr):
                    shape = v.obj.shape
                    if not all(isinstance(s, int) for s in shape):
                        continue
                    import numpy as _np
                    a = _np.zeros(shape, dtype=object)
                    for ix in _it.product(*[range(s) for s in shape]):
                        a[ix] = val(z3.Select(e.heap[v.obj.id], *[z3.IntVal(i) for i in ix]))
                    out[key][name] = {"array": a.tolist(), "dtype": v.obj.dtype, "shape": list(shape)}
                elif isinstance(v, ListObj):
                    n, t = e.heap[v.id]
                    n = val(zint(n))
                    out[key][name] = {"list": [val(z3.Select(t, z3.IntVal(i))) for i in range(n)]}
                elif is_sym(v):
                    out[key][name] = val(v)
                elif isinstance(v, (int, bool)) or v is None:
                    out[key][name] = v
        return out

    def record_concrete(self, s, res):
        import itertools as _it
        sol = z3.Solver()
        sol.set("timeout", 10000)
        for f in self.axioms + s.pc:
            sol.add(f)
        if sol.check() != z3.sat:
            return
        m = sol.model()

        def val(x):
            r = m.eval(x, model_completion=True)
            return r.as_long() if z3.is_int_value(r) else (True if z3.is_true(r) else (False if z3.is_false(r) else str(r)))

        out = {}
        for name, v in self.entry.env.items():
            if isinstance(v, Arr) and all(isinstance(d, int) for d in v.obj.shape):
                out[name] = [val(z3.Select(s.heap[v.obj.id], *[z3.IntVal(i) for i in ix])) for ix in _it.product(*[range(d) for d in v.obj.shape])]
        r = res
        if is_sym(r):
            r = val(r)
        self.concrete_runs.append(dict(result=r if isinstance(r, (int, bool)) or r is None else str(r), arrays=out, line=self.line))
