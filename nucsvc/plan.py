"""What each property check consists of besides the contracts that name it in `props`."""

LEVEL = {}  # property -> evidence level (default 'other'); filled below
EXPLAIN = {}
BOUNDED = {}  # property -> list of bounded stand-in suites (harness/bounded.py)

TRUSTED_BASE = [
    "A-GEN: nucsvc VC generator and its NuPy-core semantics (DESIGN 2.3); mitigated by canaries, unroll-mode replay on CPython, broken-body self-tests",
    "z3 5.1.0",
    "A-NUMBA: Numba compiles each function to code that behaves like its Python source on in-contract inputs",
    "A-ARITH: local integer arithmetic and int32/int64 cells are mathematical integers (no overflow)",
    "A-NUMPY: axiomatised meaning of the NumPy operations used (np.max/min/any/all/copy/zeros/full, slicing, broadcasting stores)",
    "A-SPEC: relations in contracts/*.py are written from docs/source/reference.rst, not derived from the code",
]
ASSUMPTIONS = list(TRUSTED_BASE)


def run_extra(pid, tier, seed, repo, reg, cache):
    if pid == "C20":
        from . import models
        return models.run(tier, repo.root)
    if pid == "C14":
        # meta-lemmas over the generic propagator contract (idempotence and uniqueness of the exact hull follow from P1, P2, P5)
        from . import metalemmas
        res = dict(obligations=0, discharged=0, violations=[], undecided=[], errors=[], samples=[], evidence=[])
        for name, status, dt in metalemmas.prove_all():
            res["obligations"] += 1
            if status == "proved":
                res["discharged"] += 1
            else:
                res["errors"].append(f"meta-lemma {name}: {status}")
            res["evidence"].append(dict(obligation="meta-lemma/" + name, status=status, seconds=round(dt, 3)))
        return res
    return None

# ---------------------------------------------------------------------------------------------- claims (MANIFEST is generated from this)
PROOF_NOTE = ("Trusted: nucsvc's VC generator and NuPy-core semantics, z3, Numba compiling each function faithfully, mathematical int32/int64 "
              "arithmetic, hand-written relations (docs). Functions listed as arity-bounded are proved for the listed arities only (values unbounded); "
              "bounded suites are run-time contract checks on enumerated scopes and are not counted as proved.")

CLAIMED = {}
NOT_APPLICABLE = {
    "C15": "JIT-vs-interpreted and run-to-run equality relate two executions of the same source (and Numba's machine code to it); a function contract cannot express it (DESIGN 10). Its decidable fragment (problem-object frame) is checked under C13.",
}


def claim(pid, text, technique, note=PROOF_NOTE, level="other", explain=""):
    CLAIMED[pid] = dict(text=text, technique=technique, note=note)
    LEVEL[pid] = level
    EXPLAIN[pid] = explain or text
    NOT_APPLICABLE.pop(pid, None)


COMPLEX = ["prop:alldifferent", "prop:gcc", "prop:scc", "prop:no_sub_cycle", "prop:relation"]
SIMPLE_EXACT = ["prop:and", "prop:affine_leq", "prop:affine_geq", "prop:affine_eq", "prop:count_eq", "prop:element_iv", "prop:element_lic", "prop:element_liv",
                "prop:exactly_eq", "prop:exactly_true", "prop:lexicographic_leq", "prop:max_eq", "prop:max_leq", "prop:min_eq", "prop:min_geq"]
BOUNDED.update({
    "C01": ["engine:small"] + COMPLEX,
    "C02": ["engine:small"],
    "C03": ["engine:small"],
    "C04": ["engine:small", "prop:gcc", "prop:alldifferent", "prop:no_sub_cycle", "prop:lexicographic_leq"],
    "C05": COMPLEX,
    "C06": COMPLEX,
    "C07": ["prop:relation"],
    "C08": ["engine:small", "init:small"],
    "C10": ["engine:small"],
    "C20": ["models:small"],
    "C12": ["engine:small"],
    "C13": ["engine:small", "init:small"],
    "C19": ["init:small"],
    "C14": ["prop:alldifferent", "prop:gcc", "prop:relation"] + SIMPLE_EXACT,
    "C16": COMPLEX + ["init:small"],
    "C17": ["engine:small"],
    "C18": ["faults:small"],
    "C11": ["faults:reducers"],
})
BOUNDED_NOTE = " Bounded stand-ins (never counted as proved): the same clauses checked at run time on the real functions over exhaustively enumerated small scopes (harness/bounded.py) for the Hall-interval/graph propagators (alldifferent, gcc, scc, no_sub_cycle beyond arity 4; relation is proved in invariant mode and keeps its suite as a cross-check), and small random problems under every configuration against brute force for the engine-level composition."

claim("C01", "Chain of contracts: P3 on each compute_domains_X under contract; BC/shaving satisfy the ConsistencyAlg interface (BOUND only when every domain is a point, domains only shrink, lower levels untouched); "
      "solve_one returns exactly get_solution of a BOUND state (value = shared domain + offset) and, on a fresh solver, inside the root domains; reducers and workers pass solutions through unchanged. "
      "Acceptance theorem (semantic layer: ghost assignment sigma, uninterpreted relation Rel(p, .) per posted constraint, propagator interface P3/P4), for problems whose constraints watch MIN and MAX of all their variables (full masks) "
      "solved with either shipped consistency algorithm (interface ConsistencyAlgAcc, implemented by bound_consistency_algorithm#acc and shaving_consistency_algorithm#acc over shave_bound#acc): bound_consistency_algorithm#acc keeps K (an enabled constraint whose variables are all instantiated to sigma holds on sigma unless it is queued) and J (a disabled constraint holds on every point of the box) "
      "and at its fixpoint every enabled instantiated constraint holds; solve_one#acc carries K/J per stack level through branching (C09 contract) and backtracking (C09.wake), so the assignment it returns satisfies every posted relation; "
      "BacktrackSolver.solve#acc / solve_and_queue#acc assert it at the yield / queue.put, optimize#minacc/#maxacc for the returned optimum. For ARBITRARY wake-up masks the same theorem is proved from the fixpoint layer (C08) instead of the full-mask argument: interface ConsistencyAlgFixJ = the conjunction of two verified contracts of BC and of shaving "
      "(#fix: every enabled constraint ends at a fixpoint; #j: a disabled constraint holds on every point of the box, no hypothesis on the masks), solve_one#accp / solve#accp / solve_and_queue#accp / optimize#minaccp/#maxaccp, "
      "with the bridge axiom A-FIX-ACC (a constraint at a fixpoint on an instantiated row holds: clause P3) and the two axioms of C08, under 'no constraint has one shared domain at two positions' and 'the linear equality watches MIN|MAX'. "
      "Problem.init and the per-propagator content of the axioms stay with the bounded suites.",
      "contract-based deductive verification + bounded engine suite", level="other")
claim("C02", "Loop contracts of solve_one / BacktrackSolver.solve: each search resumes from a well-formed stack, the branching contract (C09) partitions, the variable heuristics return an open decision domain or -1 only when none is left, "
      "exhaustion is reported only with an empty stack; stack levels stay pairwise separated on the recorded split domain; semantic layer (ghost solution sigma, uninterpreted relations): BC and shaving keep every solution of the box, "
      "and a search (solve_one#sem) never loses a solution that is somewhere in the stack; an assignment that is in no level of the stack never comes back (solve_one#once, #enum). "
      "Exactly-once over a whole enumeration (BacktrackSolver.solve#enum, partial correctness): ghost flag 'seen' for the ghost assignment sigma; at every yield 'sigma is the delivered point implies not seen before' is an obligation (at most once), "
      "after the pop the delivered point is separated from every remaining level on that level's recorded split domain (C02.disjoint), and when the generator ends every solution that was in the stack has been seen (at least once). "
      "With C01 (#acc: what is delivered satisfies every posted relation) the delivered multiset is the solution set, for any heuristics satisfying the interface contracts and any ConsistencyAlg satisfying its interface (BC and shaving do). "
      "Termination of the search loop is not proved (bounded suite with watchdog); the independence from posting order and the equality of multisets across the 24 configurations are cross-checked by the bounded engine suite against brute force.",
      "contract-based deductive verification + bounded engine suite", level="other")
claim("C03", "Loop contracts of BacktrackSolver.optimize / optimize_and_queue (both directions): after each improving solution the solver is reset to the root, the objective view bound is set just past the incumbent (through the offset), "
      "the incumbent stays inside the declared domain, the loop measure decreases; decrease_max / increase_min contracts; MultiprocessingSolver.optimize keeps the extremal message. "
      "Optimality is proved in the semantic layer (optimize#minsem/#maxsem over solve_one#sem): None is returned only if no assignment satisfying every posted relation lies in the root box, and a returned assignment is at least as good as every such assignment "
      "(loop invariant: every solution strictly better than the incumbent is still in the root box). That the returned assignment itself satisfies the relations is C01 (optimize#minacc/#maxacc); the bounded engine suite cross-checks against brute force.",
      "contract-based deductive verification + bounded engine suite", level="other")
claim("C04", "decreases clauses discharged for: the propagation loop of bound_consistency_algorithm (lexicographic measure: total size of the current box, number of queued propagators — for ANY propagators satisfying the interface), "
      "the shaving loop (domains left to scan, bounds left to try, total size), the optimisation loop, the reducers; for-loops of all functions under contract are bounded by construction; unroll-mode exhaustion for the while loops of lexicographic_leq up to 5 pairs. "
      "The search loop of solve_one (multiset measure) and the Hall-interval pointer loops are covered by bounded suites with a per-call watchdog.",
      "contract-based deductive verification (decreases) + bounded suites with watchdog", level="other")
claim("C10", "shave_bound contract (stack height restored, only the probed bound may move and only by one, it moves iff the probe's propagation pass returned INCONSISTENT, watchers of the moved bound are queued, flag rows and lower levels untouched) and "
      "shaving_consistency_algorithm proved to satisfy the same ConsistencyAlg interface contract as plain BC (so every caller verified against the interface is verified for shaving: with C01/C02 it enumerates the same solutions). "
      "'Contained in what plain bound consistency returns' is checked by the bounded pass monitor (every shaving pass of the real solver, also with small stacks where no level is free for a probe, against a plain pass from a copy of the same state).",
      "contract-based deductive verification (own AST->VC generator, z3)", level="other")
claim("C11", "MultiprocessingSolver.solve/optimize verified for an ARBITRARY well-formed message sequence (= every interleaving): never reads past the stream, consumes every message, returns at the last completion marker, yields each solution exactly once, "
      "keeps the extremal objective (None iff no solution), final statistics are those of each worker's marker; sum_stats/max_stats; worker side: solve_and_queue/optimize_and_queue emit exactly one marker, last.",
      "contract-based deductive verification with ghost message sequence and lemma library (+ bounded cross-check: every interleaving of small worker streams through the real reducers)", level="proof")
claim("C12", "Problem.split contract: min(k, size) >= 1 parts, contiguous, non-empty, first starts at a, last ends at b (closed-form loop invariant, nonlinear), every other row / the index and offset lists of each copy equal the original's, original unchanged (deepcopy by assumed contract).",
      "contract-based deductive verification with environment handlers (deepcopy, append)", level="other")
claim("C13", "Offset round trip (BC view = shared + offset, write-back subtracts it, get_solution, decrease_max/increase_min) and frame obligations of every function under contract; independence from constraint order, duplication, dummy constraints and "
      "sharing-vs-equality rewrites checked by the bounded engine suite.",
      "contract-based deductive verification + bounded engine suite", level="other")
claim("C14", "P1+P2 deductively (C05); exact hull (every output bound is attained by a tuple of the input box that satisfies the relation: explicit witness tuples, unbounded arity) proved for "
      "max_leq, min_geq, affine_leq, affine_geq, and, max_eq, min_eq, element_iv and element_lic (list invariants: strictly descending, complete through a ghost rank array) and relation (unbounded table; each bound attained by a table row inside the input box); 'a second consecutive call changes nothing' and the uniqueness of the exact hull "
      "follow for these from P1, P2, P5 by the meta-lemmas M-IDEM / M-EXACT-UNIQUE, proved on every run over an uninterpreted relation and arbitrary arity (nucsvc/metalemmas.py); "
      "for all 18 listed propagators exactness (hull, inconsistency iff empty, idempotence; one interval round for affine_eq via hull of its own output) by the bounded propagator suites on exhaustively enumerated small scopes.",
      "contract-based deductive verification (witness tuples) for 10 propagators + meta-lemmas + bounded run-time contract checks", level="other")
claim("C18", "get_message contract under an explicit environment contract: every Queue.get has a timeout; an iteration that finds the queue empty while an unfinished worker is dead leaves by raising (never loops on); the reducers track completion flags exactly. Bounded stand-in (not counted as proved): the real get_message against deterministic stand-ins for Queue and Process over every small fault script (harness/bounded_faults.py).",
      "contract-based deductive verification of a safety reformulation under an environment contract + bounded fault scripts", level="other")
claim("C08", "Shrink-only and frame clauses of BC and shaving (postconditions), exact set semantics of the propagation queue (add_propagators, pop_propagator), "
      "declared wake-up masks contain the needed events (get_triggers_X contracts for all 21 propagators), event masks announced by the value heuristics and recorded for backtracking cover every moved bound (C09 clauses), "
      "BC queues the watchers of every bound it moves and re-filters a propagator whose aliased views were intersected. "
      "Fixpoint layer (uninterpreted Fix(p, level, store); hypotheses: no constraint has one shared domain at two positions, the linear equality watches MIN|MAX; two trusted axiom schemas listed under assumptions: "
      "A-FIX-ADEQ 'an unwatched change of one domain keeps a fixpoint' (wake-up masks are sufficient) and A-FIX-RAN 'a constraint that ran and sees its own output is at a fixpoint if nothing changed or it is idempotent'): "
      "bound_consistency_algorithm#fix ends with every enabled constraint at a fixpoint provided the constraints that are not queued were (its queue discipline: exact events, self re-queue of the linear equality, skip of the propagator that just ran only when it saw its own output); "
      "solve_one#fix, shave_bound#fix and shaving_consistency_algorithm#fix establish that precondition at every pass of a search (after a branch: the new rows differ from the propagated one on the split domain only and the announced events are accurate; "
      "after a backtrack: the recorded update wakes what it must; inside shaving: the probe row and the shaved / restored row). The per-propagator content of the two axioms, the trigger clause of Problem.init and the largest-fixpoint claim stay with the bounded suites "
      "(fixpoint monitor after every propagation pass of the real solver, including the passes nested in shaving).",
      "contract-based deductive verification (queue discipline under two trusted axiom schemas) + bounded fixpoint monitor", level="other")
claim("C20", "Per-model lemmas discharged by z3 on the declarative content produced by the REAL constructors (queens up to 30, magic sequence up to 10, magic square 3-5 with/without symmetry breaking, latin squares incl. givens and the RC model, Schur up to 12): "
      "posted relations imply the definition-level validator (soundness, all variants), and without symmetry breaking the validator implies the posted relations and the declared domains (completeness). "
      "Counts, optima and the remaining models are bounded: every shipped model (queens, magic sequence, magic square, latin square (+RC, +givens), circuit, Schur (with/without symmetry breaking), QG5, BIBD, donald, sudoku, knapsack, TSP, Golomb) "
      "is solved by the real solver at small sizes under three configurations; every solution is validated against the problem definition and counts/optima are compared with brute force or the literature. "
      "With C01/C02 the lemmas give 'every solution is a valid object' and 'the solutions are exactly the valid objects' for those models and sizes; that a count equals the literature's number is not decidable by a contract and is only cross-checked at small sizes.",
      "per-model z3 lemmas over the real constructors' output + bounded run-time validation", level="other")
claim("C05", "Generic propagator contract clauses P1 (contraction) and P2 (every supported tuple kept; inconsistency only when no tuple) as postconditions of each compute_domains_X, "
      "discharged by z3 from VCs generated from the real source: unbounded-arity proofs (loop invariants on a ghost tuple) for 15 propagators (and, linear x3, count_eq, dummy, element x3, exactly_eq, exactly_true, max/min x4), "
      "arity-bounded proofs (unroll mode, values symbolic) for lexicographic_leq (<= 5 pairs), alldifferent (n <= 2; 3 in the thorough tier), gcc (one or two variables/values, capacities >= 1), no_sub_cycle (n = 3; 4 thorough); relation and scc by bounded suites only.",
      "contract-based deductive verification (own AST->VC generator, z3); unroll-mode counterexamples replayed natively", level="other")
claim("C06", "Clause P3 (a non-failing call that leaves a point leaves a tuple of the relation) with P2 (iff on ground inputs) on each compute_domains_X under contract.",
      "contract-based deductive verification (own AST->VC generator, z3)", level="other")
claim("C07", "Clause P4 (ENTAILMENT only if every tuple of the returned box satisfies the relation) on the entailing propagators, plus the flag-row contracts of cp_put, backtrack and the BC loop "
      "(a flag is cleared only on ENTAILMENT, rows below the top are never touched, a new level inherits the row); engine-level meaning proved in the acceptance variants: J / JL 'a disabled constraint holds on every point of its level's box' "
      "is kept by BC, shaving, branching and backtracking (#acc variants), and every index into the flag array is in range (a wrapped negative index would disable another constraint).",
      "contract-based deductive verification (own AST->VC generator, z3)", level="other")
claim("C09", "DomHeuristic interface contract (non-empty, disjoint, covering sub-ranges; other domains, lower levels and flag rows untouched; returned and recorded event masks cover every moved bound incl. GROUND) "
      "proved for min_value, max_value, split_low, value, mid_value, min_cost; contracts of cp_put, backtrack, add_propagators; solve_one re-establishes the queue through add_propagators.",
      "contract-based deductive verification (own AST->VC generator, z3)", level="proof")
claim("C16", "One in-bounds obligation per subscript, slice, gather and reduction of every function under contract, proved from the well-formedness preconditions (wf_static, wf_dyn, parameter contracts).",
      "contract-based deductive verification: generated bounds obligations", level="other")
claim("C17", "Counter clauses as loop invariants/postconditions: BC (passes +1, filter calls = ghost call count, inconsistency = 1 iff result inconsistent, other slots untouched), backtrack (+1 iff success), "
      "solve_one (solutions, choices, BC passes = 1 + choices + backtracks as a proved law of the loop; exact for plain BC in the #bc variant).",
      "contract-based deductive verification with ghost call counters", level="proof")
claim("C19", "Range obligations on every store into uint8/uint16/int16 arrays and bounds obligations on stack[top+1], stack[top+2]: discharged from the run-time guard in solve_one (IndexError) and H <= 256.",
      "contract-based deductive verification: generated range obligations", level="other")

for _p in list(CLAIMED):
    if _p in BOUNDED:
        CLAIMED[_p]["note"] = PROOF_NOTE + BOUNDED_NOTE
