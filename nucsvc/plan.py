"""What each property check consists of besides the contracts that name it in `props`."""

LEVEL = {}  # property -> evidence level (default 'other'); filled below
EXPLAIN = {}
BOUNDED = {}  # property -> list of bounded stand-in suites (harness/bounded.py)

TRUSTED_BASE = [
    "A-GEN: nucsvc VC generator and its NuPy-core semantics (DESIGN 2.3); mitigated by canaries, unroll-mode replay on CPython, broken-body self-tests",
    "z3 5.1.0",
    "A-NUMBA: Numba compiles each function to code that behaves like its Python source on in-contract inputs",
    "A-ARITH: local integer arithmetic and int32/int64 cells are mathematical integers (no overflow)",
    "A-NUMPY: axiomatised meaning of the NumPy operations used (np.max/min/any/all/copy/zeros/full, slicing, broadcasting stores)",
    "A-SPEC: relations in contracts/*.py are written from docs/source/reference.rst, not derived from the code",
]
ASSUMPTIONS = list(TRUSTED_BASE)


def run_extra(pid, tier, seed, repo, reg, cache):
    return None

# ---------------------------------------------------------------------------------------------- claims (MANIFEST is generated from this)
PROOF_NOTE = ("Trusted: nucsvc's VC generator and NuPy-core semantics, z3, Numba compiling each function faithfully, mathematical int32/int64 "
              "arithmetic, hand-written relations (docs). Functions listed as arity-bounded are proved for the listed arities only (values unbounded); "
              "bounded suites are run-time contract checks on enumerated scopes and are not counted as proved.")

CLAIMED = {}
NOT_APPLICABLE = {
    "C15": "JIT-vs-interpreted and run-to-run equality relate two executions of the same source (and Numba's machine code to it); a function contract cannot express it (DESIGN 10). Its decidable fragment (problem-object frame) is checked under C13.",
}


def claim(pid, text, technique, note=PROOF_NOTE, level="other", explain=""):
    CLAIMED[pid] = dict(text=text, technique=technique, note=note)
    LEVEL[pid] = level
    EXPLAIN[pid] = explain or text
    NOT_APPLICABLE.pop(pid, None)


for _p in ["C01", "C02", "C03", "C04", "C08", "C10", "C11", "C12", "C13", "C14", "C18", "C20"]:
    NOT_APPLICABLE[_p] = "check under construction in this build (contracts not yet registered); see DESIGN.md section 4"

claim("C05", "Generic propagator contract clauses P1 (contraction) and P2 (every supported tuple kept; inconsistency only when no tuple) as postconditions of each compute_domains_X, "
      "discharged by z3 from VCs generated from the real source: unbounded-arity proofs (loop invariants) for the linear and min/max/and/dummy propagators, "
      "arity-bounded proofs (unroll mode, values symbolic) for the counting, element and lexicographic propagators.",
      "contract-based deductive verification (own AST->VC generator, z3); unroll-mode counterexamples replayed natively", level="other")
claim("C06", "Clause P3 (a non-failing call that leaves a point leaves a tuple of the relation) with P2 (iff on ground inputs) on each compute_domains_X under contract.",
      "contract-based deductive verification (own AST->VC generator, z3)", level="other")
claim("C07", "Clause P4 (ENTAILMENT only if every tuple of the returned box satisfies the relation) on the entailing propagators, plus the flag-row contracts of cp_put, backtrack and the BC loop "
      "(a flag is cleared only on ENTAILMENT, rows below the top are never touched, a new level inherits the row).",
      "contract-based deductive verification (own AST->VC generator, z3)", level="other")
claim("C09", "DomHeuristic interface contract (non-empty, disjoint, covering sub-ranges; other domains, lower levels and flag rows untouched; returned and recorded event masks cover every moved bound incl. GROUND) "
      "proved for min_value, max_value, split_low, value, mid_value, min_cost; contracts of cp_put, backtrack, add_propagators; solve_one re-establishes the queue through add_propagators.",
      "contract-based deductive verification (own AST->VC generator, z3)", level="proof")
claim("C16", "One in-bounds obligation per subscript, slice, gather and reduction of every function under contract, proved from the well-formedness preconditions (wf_static, wf_dyn, parameter contracts).",
      "contract-based deductive verification: generated bounds obligations", level="other")
claim("C17", "Counter clauses as loop invariants/postconditions: BC (passes +1, filter calls = ghost call count, inconsistency = 1 iff result inconsistent, other slots untouched), backtrack (+1 iff success), "
      "solve_one (solutions, choices, BC passes = 1 + choices + backtracks as a proved law of the loop; exact for plain BC in the #bc variant).",
      "contract-based deductive verification with ghost call counters", level="proof")
claim("C19", "Range obligations on every store into uint8/uint16/int16 arrays and bounds obligations on stack[top+1], stack[top+2]: discharged from the run-time guard in solve_one (IndexError) and H <= 256.",
      "contract-based deductive verification: generated range obligations", level="other")
