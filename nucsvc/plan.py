"""What each property check consists of besides the contracts that name it in `props`."""

LEVEL = {}  # property -> evidence level (default 'other'); filled below
EXPLAIN = {}
BOUNDED = {}  # property -> list of bounded stand-in suites (harness/bounded.py)

TRUSTED_BASE = [
    "A-GEN: nucsvc VC generator and its NuPy-core semantics (DESIGN 2.3); mitigated by canaries, unroll-mode replay on CPython, broken-body self-tests",
    "z3 5.1.0",
    "A-NUMBA: Numba compiles each function to code that behaves like its Python source on in-contract inputs",
    "A-ARITH: local integer arithmetic and int32/int64 cells are mathematical integers (no overflow)",
    "A-NUMPY: axiomatised meaning of the NumPy operations used (np.max/min/any/all/copy/zeros/full, slicing, broadcasting stores)",
    "A-SPEC: relations in contracts/*.py are written from docs/source/reference.rst, not derived from the code",
]
ASSUMPTIONS = list(TRUSTED_BASE)


def run_extra(pid, tier, seed, repo, reg, cache):
    return None
