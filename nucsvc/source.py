"""Mechanical extraction of the functions of /repo: re-done on every run.
Drops: decorators, annotations, docstrings (ignored by the executor), logger calls. Rewrites nothing."""
import ast
import hashlib
import os

REPO = os.environ.get("NUCS_REPO", "/repo")


class FuncInfo:
    def __init__(self, qualname, module, relpath, node, src, cls=None):
        self.qualname = qualname  # "nucs/propagators/max_leq_propagator.py::compute_domains_max_leq"
        self.module = module
        self.relpath = relpath
        self.node = node
        self.src = src
        self.cls = cls
        self.sha = hashlib.sha256(src.encode()).hexdigest()
        self.first_line = node.lineno
        self.last_line = node.end_lineno
        self.name = node.name

    def describe(self):
        return dict(function=self.qualname, file=self.relpath, lines=[self.first_line, self.last_line], sha256=self.sha)


class ModuleInfo:
    def __init__(self, relpath, tree, text):
        self.relpath = relpath
        self.tree = tree
        self.text = text
        self.imports = {}  # local name -> (module relpath guess, original name)
        self.functions = {}  # bare name / Class.method -> FuncInfo
        self.consts = {}


class Repo:
    def __init__(self, root=None):
        self.root = root or REPO
        self.modules = {}
        self.functions = {}
        self.consts = {}
        self._load()

    def _load(self):
        base = os.path.join(self.root, "nucs")
        for dirpath, _dirs, files in os.walk(base):
            for f in sorted(files):
                if not f.endswith(".py"):
                    continue
                full = os.path.join(dirpath, f)
                rel = os.path.relpath(full, self.root)
                text = open(full).read()
                try:
                    tree = ast.parse(text)
                except SyntaxError:
                    continue
                m = ModuleInfo(rel, tree, text)
                self.modules[rel] = m
                for node in tree.body:
                    if isinstance(node, ast.ImportFrom) and node.module:
                        modrel = node.module.replace(".", "/") + ".py"
                        for a in node.names:
                            m.imports[a.asname or a.name] = (modrel, a.name)
                    elif isinstance(node, ast.Assign) and len(node.targets) == 1 and isinstance(node.targets[0], ast.Name) and isinstance(node.value, ast.Constant) and isinstance(node.value.value, int):
                        m.consts[node.targets[0].id] = node.value.value  # module-level integer constants (PATH_START = 0, ...)
                    elif isinstance(node, ast.FunctionDef):
                        self._add(m, node, None)
                    elif isinstance(node, ast.ClassDef):
                        for sub in node.body:
                            if isinstance(sub, ast.FunctionDef):
                                self._add(m, sub, node.name)
        self._load_consts()

    def _add(self, m, node, cls):
        name = f"{cls}.{node.name}" if cls else node.name
        src = ast.get_source_segment(m.text, node)
        fi = FuncInfo(f"{m.relpath}::{name}", m, m.relpath, node, src, cls)
        m.functions[name] = fi
        self.functions[fi.qualname] = fi

    def _load_consts(self):
        m = self.modules.get("nucs/constants.py")
        ns = {}
        if m is None:
            return
        for node in m.tree.body:
            if isinstance(node, ast.Assign):
                try:
                    code = compile(ast.Module(body=[node], type_ignores=[]), "constants", "exec")
                    exec(code, {"__builtins__": {"tuple": tuple, "range": range}}, ns)
                except Exception:
                    pass
        self.consts = {k: v for k, v in ns.items() if isinstance(v, (int, str)) and not isinstance(v, bool) or isinstance(v, bool)}
        # registry indices: NAME = register_xxx(...) at module level returns the number of earlier registrations (append-only lists)
        for m2 in self.modules.values():
            counters = {}
            for node in m2.tree.body:
                if isinstance(node, ast.Assign) and isinstance(node.value, ast.Call) and isinstance(node.value.func, ast.Name) and node.value.func.id.startswith("register_"):
                    f = node.value.func.id
                    k = counters.get(f, 0)
                    counters[f] = k + 1
                    for t in node.targets:
                        if isinstance(t, ast.Name):
                            self.consts[t.id] = k

    def resolve(self, module, name):
        """resolve a bare callee name used in `module` to a FuncInfo (or None)"""
        if name in module.functions:
            return module.functions[name]
        if name in module.imports:
            modrel, orig = module.imports[name]
            m2 = self.modules.get(modrel)
            if m2 is not None:
                if orig in m2.functions:
                    return m2.functions[orig]
                if orig in m2.imports:  # re-export (e.g. heuristics.py)
                    return self.resolve(m2, orig)
        return None

    def find(self, suffix):
        """find a function by '::name' suffix or full qualname"""
        if suffix in self.functions:
            return self.functions[suffix]
        hits = [f for q, f in self.functions.items() if q.endswith("::" + suffix)]
        if len(hits) == 1:
            return hits[0]
        raise KeyError(f"{suffix}: {len(hits)} candidates")
