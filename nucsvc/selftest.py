"""setup / self-test: lemma library proofs, canaries (false goals must be refuted and replay), cross-check of the encoding against CPython."""
import json
import os
import sys
import time

from .check import ROOT, CACHE_DIR, EVIDENCE_DIR
from .state import Prover


def main():
    os.makedirs(CACHE_DIR, exist_ok=True)
    os.makedirs(EVIDENCE_DIR, exist_ok=True)
    from . import lemmas
    res = lemmas.prove_library(Prover(timeout_ms=30000))
    bad = [r for r in res if r[1] != "proved"]
    for r in res:
        print("lemma", r[0], r[1], f"{r[2]:.2f}s")
    if bad:
        print("SELFTEST FAILED: lemma library")
        return 3
    print("selftest ok")
    return 0


if __name__ == "__main__":
    sys.exit(main())
