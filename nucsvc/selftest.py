"""setup / self-test: lemma library proofs, canaries (false goals must be refuted and replay), cross-check of the encoding against CPython."""
import json
import os
import sys
import time

from .check import ROOT, CACHE_DIR, EVIDENCE_DIR
from .state import Prover


def main():
    os.makedirs(CACHE_DIR, exist_ok=True)
    os.makedirs(EVIDENCE_DIR, exist_ok=True)
    from . import lemmas
    res = lemmas.prove_library(Prover(timeout_ms=30000))
    bad = [r for r in res if r[1] != "proved"]
    for r in res:
        print("lemma", r[0], r[1], f"{r[2]:.2f}s")
    if bad:
        print("SELFTEST FAILED: lemma library")
        return 3
    from . import metalemmas
    for name, status, dt in metalemmas.prove_all():
        print("meta-lemma", name, status, f"{dt:.2f}s")
        if status != "proved":
            print("SELFTEST FAILED: meta-lemma", name)
            return 3
    # canaries: deliberately false clauses must be refuted with a model that replays on the real function
    import copy
    from .contracts import Registry
    from .source import Repo
    from .verifier import Verifier
    from . import cex
    from .check import CONTRACT_DIR
    repo = Repo()
    reg = Registry().load_dir(CONTRACT_DIR)
    canaries = [
        ("nucs/propagators/max_leq_propagator.py::compute_domains_max_leq", ("canary.never_entailed", "result != PROP_ENTAILMENT"), {"n": 2, "m": 0}),
        ("nucs/solvers/solver.py::decrease_max", ("canary.bound_untouched", "shr_domains_stack[stacks_top[0], dom_indices_arr[var_idx], MAX] == old(shr_domains_stack)[stacks_top[0], dom_indices_arr[var_idx], MAX]"),
         {"H": 2, "D": 2, "V": 2, "_pin": {"stacks_top": [0]}}),
        ("nucs/heuristics/min_value_dom_heuristic.py::min_value_dom_heuristic", ("canary.alternative_equals_branch", "shr_domains_stack[stacks_top[0], dom_idx, MAX] == shr_domains_stack[old(stacks_top)[0], dom_idx, MAX]"),
         {"H": 3, "D": 2, "P": 1, "_pin": {"stacks_top": [0]}}),
    ]
    for q, clause, arity in canaries:
        con = copy.copy(reg.contracts[q])
        con.ensures = list(con.ensures) + [clause]
        reg2 = copy.copy(reg)
        reg2.contracts = dict(reg.contracts)
        reg2.contracts[q] = con
        fi = repo.functions[q]
        v = Verifier(repo, Prover(timeout_ms=20000), reg2, fi)
        v.verify(dict(arity))
        hit = [o for o in v.obligations if o.label == clause[0] and o.status == "failed" and o.model]
        if not hit:
            print("SELFTEST FAILED: canary", clause[0], "was not refuted", [(o.label, o.status) for o in v.obligations if o.label == clause[0]])
            return 3
        r = cex.replay(repo, reg2, fi, con, hit[0].model, repo.root)
        if clause[0] not in r.get("violated", []):
            print("SELFTEST FAILED: canary", clause[0], "counter-model does not replay on the real function", r.get("violated"), r.get("native"))
            return 3
        print("canary", clause[0], "refuted and replayed natively")
    # invariant-mode canaries: clauses that are false after the first iteration must not be discharged (loop-head havoc of self.<array> state)
    inv_canaries = [
        ("nucs/solvers/backtrack_solver.py::BacktrackSolver.solve", ("canary.nothing_delivered_before_exhaustion", "self.statistics[STATS_IDX_SOLVER_SOLUTION_NB] == old(self.statistics)[STATS_IDX_SOLVER_SOLUTION_NB]")),
        ("nucs/solvers/multiprocessing_solver.py::MultiprocessingSolver.solve", ("canary.first_message_only", "implies(N >= 1, forall(k, 0, 13, self.statistics[0, k] == old(self.statistics)[0, k]))")),
    ]
    os.environ["NUCSVC_RLIMIT"] = "3000000"  # a discharge would take a few thousand units: a small budget keeps the refusals cheap
    for q, clause in inv_canaries:
        if q not in reg.contracts:
            continue
        con = copy.copy(reg.contracts[q])
        con.ensures = list(con.ensures) + [clause]
        reg2 = copy.copy(reg)
        reg2.contracts = dict(reg.contracts)
        reg2.contracts[q] = con
        fi = repo.functions[q]
        v = Verifier(repo, Prover(timeout_ms=5000, rlimit=3000000), reg2, fi)
        try:
            v.verify(None)
        except Exception as e:  # the canary clause itself may be ill-typed for this contract: that is a self-test failure too
            print("SELFTEST FAILED: canary", clause[0], "could not be evaluated:", e)
            return 3
        obs = [o for o in v.obligations if o.label == clause[0]]
        if not obs or any(o.status == "proved" for o in obs):
            print("SELFTEST FAILED: canary", clause[0], "was discharged (or never generated): loop-head state is not arbitrary", [(o.oid, o.status) for o in obs])
            return 3
        print("canary", clause[0], "not discharged:", [o.status for o in obs])
    print("selftest ok")
    return 0


if __name__ == "__main__":
    sys.exit(main())
