"""Verify one function: python3-vt -m nucsvc.run <qualname-suffix> [arity k=v ...]"""
import sys
import time

from .contracts import Registry
from .source import Repo
from .state import Prover
from .verifier import Verifier
from .values import VerifError

CONTRACT_DIR = __file__.rsplit("/", 2)[0] + "/contracts"


def load():
    repo = Repo()
    reg = Registry().load_dir(CONTRACT_DIR)
    return repo, reg


def verify_function(repo, reg, qualname, arity=None, timeout_ms=20000):
    variant = None
    if "#" in qualname:
        qualname, variant = qualname.split("#")
    fi = repo.find(qualname)
    prover = Prover(timeout_ms=timeout_ms)
    v = Verifier(repo, prover, reg, fi, key=fi.qualname + ("#" + variant if variant else ""))
    t0 = time.time()
    err = None
    try:
        v.verify(arity)
    except VerifError as e:
        err = f"{type(e).__name__}: {e}"
    return v, err, time.time() - t0


if __name__ == "__main__":
    repo, reg = load()
    name = sys.argv[1]
    arity = {k: int(x) for k, x in (a.split("=") for a in sys.argv[2:] if "=" in a)} or None
    v, err, dt = verify_function(repo, reg, name, arity)
    for ob in v.obligations:
        if ob.status != "proved" or "-v" in sys.argv:
            print(f"  {ob.status:8s} {ob.oid:60s} {ob.time:.2f}s {ob.detail[:200]}")
    n = len(v.obligations)
    print(f"{name}: {sum(o.status == 'proved' for o in v.obligations)}/{n} proved, paths={v.paths}, raised={len(v.raised)}, err={err}, {dt:.2f}s solver={v.prover.solver_time:.2f}s incomplete={v.incomplete}")
