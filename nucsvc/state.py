"""Execution state and obligation bookkeeping."""
import os
import time

import z3

from .values import *  # noqa


class State:
    __slots__ = ("env", "heap", "pc", "guards", "old", "pre_stack", "spec", "ghost_env", "depth", "notes")

    def __init__(self):
        self.env = {}
        self.heap = {}
        self.pc = []
        self.guards = []
        self.old = None  # entry snapshot (State)
        self.pre_stack = []  # loop-entry snapshots
        self.spec = False  # evaluating contract language: no obligations
        self.ghost_env = {}
        self.depth = 0
        self.notes = []

    def fork(self):
        s = State()
        s.env = dict(self.env)
        s.heap = dict(self.heap)
        s.pc = list(self.pc)
        s.guards = list(self.guards)
        s.old = self.old
        s.pre_stack = list(self.pre_stack)
        s.spec = self.spec
        s.ghost_env = self.ghost_env
        s.depth = self.depth
        s.notes = self.notes
        return s

    def snapshot(self):
        s = self.fork()
        s.guards = []
        return s

    def assume(self, f):
        f = truth(f)
        if f is True:
            return
        if self.guards:
            f = b_implies(b_and(*self.guards), f)
        self.pc.append(zbool(f))


class Obligation:
    __slots__ = ("oid", "kind", "label", "func", "line", "status", "time", "backend", "tags", "detail", "model", "smt2")

    def __init__(self, oid, kind, label, func, line, tags):
        self.oid = oid
        self.kind = kind
        self.label = label
        self.func = func
        self.line = line
        self.tags = tags
        self.status = None
        self.time = 0.0
        self.backend = "z3"
        self.detail = ""
        self.model = None
        self.smt2 = None

    def to_json(self):
        return dict(id=self.oid, kind=self.kind, label=self.label, function=self.func, line=self.line, tags=sorted(self.tags),
                    status=self.status, time_s=round(self.time, 4), backend=self.backend, detail=self.detail, model=self.model)


class Prover:
    """discharges obligations; z3 first (rlimit + timeout), result unsat => proved"""

    def __init__(self, timeout_ms=20000, rlimit=0):
        self.timeout_ms = timeout_ms
        self.rlimit = rlimit
        self.solver_time = 0.0
        self.calls = 0

    def _solver(self, timeout_ms=None):
        s = z3.Solver()
        s.set("timeout", timeout_ms or self.timeout_ms)
        if self.rlimit:
            s.set("rlimit", self.rlimit)
        return s

    def check_valid(self, pc, goal, timeout_ms=None, want_model=False):
        """returns ('proved'|'failed'|'unknown', model or None, seconds)"""
        goal = truth(goal)
        if goal is True:
            return "proved", None, 0.0
        t0 = time.time()
        T = timeout_ms or self.timeout_ms
        # Budgets are z3 resource units (rlimit), not wall-clock: the verdict does not depend on machine load. The heaviest obligation of the
        # unchanged tree needs about 21M units; R is three times that. Wall-clock T is only a generous backstop.
        R = int(os.environ.get("NUCSVC_RLIMIT", "60000000"))
        if T > 100000:
            R = R * 3  # contracts that ask for a larger budget (semantic variants)
        uk = getattr(self, "unknowns", 0)
        if uk >= 3:
            R = 2000000  # the function is already not proved: the remaining goals only get a token budget (fail fast)
        elif uk:
            R = max(R // 6, 5000000)
        r = z3.unknown
        m = None
        # unstable queries: several attempts with different seeds before giving up (unknown is never a verdict)
        for seed, budget in ((0, R // 10), (1, R // 10), (2, R // 10), (3, R // 4), (0, R), (4, 2 * R)):
            s = z3.Solver()
            # wall-clock backstop, generous w.r.t. the unloaded run (heaviest discharged obligation: ~10 s): the resource budget decides first
            cap = 5000 if uk >= 3 else (30000 if uk else 90000)
            s.set("timeout", int(max(10000 if not uk else 3000, min(cap, cap * budget / (2.0 * R)))))
            s.set("rlimit", budget)
            if seed:
                s.set("random_seed", seed)
            for f in pc:
                s.add(f)
            s.add(z3.Not(zbool(goal)))
            r = s.check()
            if r != z3.unknown:
                m = s.model() if (r == z3.sat and want_model) else None
                break
        dt = time.time() - t0
        self.solver_time += dt
        self.calls += 1
        if r == z3.unsat:
            return "proved", None, dt
        if r == z3.sat:
            return "failed", m, dt
        self.unknowns = getattr(self, "unknowns", 0) + 1
        return "unknown", None, dt

    def feasible(self, pc, timeout_ms=300):
        t0 = time.time()
        s = self._solver(timeout_ms)
        for f in pc:
            s.add(f)
        r = s.check()
        self.solver_time += time.time() - t0
        self.calls += 1
        return r != z3.unsat
