"""Meta-lemmas over the generic propagator contract, proved once per run over an UNINTERPRETED relation R and arbitrary arity n.

M-IDEM  (C14 'a second consecutive call changes nothing'):
   let B  = input box, B1 = output of a first call that did not fail, B2 = output of a second call on B1.
   From   P1(call 1), P2(call 1), P5(call 1: every bound of B1 is attained by a tuple of B that satisfies R),
          P1(call 2), P2(call 2)
   follows: call 2 does not fail and B2 == B1.
   So every compute_domains_X whose P1, P2 and P5 clauses are discharged is idempotent, with no further obligation.
M-EXACT-UNIQUE: two boxes that are both the exact hull (P1+P2+P5) of the same input box are equal (the result does not depend on the
   order in which bounds are tightened) - the per-propagator content of 'largest common fixpoint'.
"""
import z3


def _setup(R=None):
    I = z3.IntSort()
    T = z3.ArraySort(I, I)            # a tuple
    Box = z3.ArraySort(I, I, I)       # box[k, MIN|MAX]
    concrete = R is not None
    R = R or z3.Function("R", T, z3.BoolSort())
    n = z3.Int("n")
    k = z3.Int("k")
    t = z3.Const("t", T)

    def inbox(tt, b):
        j = z3.Int("j_in")
        return z3.ForAll([j], z3.Implies(z3.And(j >= 0, j < n), z3.And(b[j, 0] <= tt[j], tt[j] <= b[j, 1])))

    def P1(b0, b1):
        return z3.ForAll([k], z3.Implies(z3.And(k >= 0, k < n), z3.And(b0[k, 0] <= b1[k, 0], b1[k, 0] <= b1[k, 1], b1[k, 1] <= b0[k, 1])))

    def P2(b0, b1, ok):
        return z3.ForAll([t], z3.Implies(z3.And(inbox(t, b0), R(t)), z3.And(ok, inbox(t, b1))), patterns=[] if concrete else [R(t)])

    def P5(b0, b1, wmin, wmax):
        return z3.ForAll([k], z3.Implies(z3.And(k >= 0, k < n), z3.And(
            inbox(wmin(k), b0), R(wmin(k)), wmin(k)[k] == b1[k, 0],
            inbox(wmax(k), b0), R(wmax(k)), wmax(k)[k] == b1[k, 1])))

    return I, T, Box, R, n, k, inbox, P1, P2, P5


def prove_all(timeout_ms=30000):
    I, T, Box, R, n, k, inbox, P1, P2, P5 = _setup()
    B, B1, B2 = z3.Consts("B B1 B2", Box)
    ok2 = z3.Bool("ok2")
    wmin, wmax = z3.Function("wmin", I, T), z3.Function("wmax", I, T)
    out = []

    def check(name, hyps, goal):
        s = z3.Solver()
        s.set("timeout", timeout_ms)
        for h in hyps:
            s.add(h)
        s.add(z3.Not(goal))
        import time
        t0 = time.time()
        r = s.check()
        out.append((name, "proved" if r == z3.unsat else str(r), time.time() - t0))

    kk = z3.Int("kk")
    hyps = [n >= 1, P1(B, B1), P2(B, B1, z3.BoolVal(True)), P5(B, B1, wmin, wmax), P1(B1, B2), P2(B1, B2, ok2), kk >= 0, kk < n]
    check("M-IDEM.not_failing", hyps, ok2)
    check("M-IDEM.same_min", hyps, B2[kk, 0] == B1[kk, 0])
    check("M-IDEM.same_max", hyps, B2[kk, 1] == B1[kk, 1])
    # vacuity guard: the hypotheses have a model (R = every tuple, the point box {0}^n, witnesses = the zero tuple)
    _I, _T, _Box, _R, n_, k_, inbox_, P1_, P2_, P5_ = _setup(R=lambda tt: z3.BoolVal(True))
    a, b = z3.Ints("a b")
    Z = z3.Lambda([a, b], z3.IntVal(0))
    zero = lambda kx: z3.K(_I, z3.IntVal(0))
    s = z3.Solver()
    s.set("timeout", timeout_ms)
    for h in [n_ >= 1, P1_(Z, Z), P2_(Z, Z, z3.BoolVal(True)), P5_(Z, Z, zero, zero), P1_(Z, Z), P2_(Z, Z, z3.BoolVal(True))]:
        s.add(h)
    r = s.check()
    out.append(("M-IDEM.hypotheses_satisfiable", "proved" if r == z3.sat else "vacuous? " + str(r), 0.0))
    # canary: without P5 of the first call the conclusion must NOT follow
    s = z3.Solver()
    s.set("timeout", 5000)
    for h in [n >= 1, P1(B, B1), P2(B, B1, z3.BoolVal(True)), P1(B1, B2), P2(B1, B2, ok2), kk >= 0, kk < n]:
        s.add(h)
    s.add(z3.Not(B2[kk, 0] == B1[kk, 0]))
    r = s.check()
    out.append(("M-IDEM.canary_needs_P5", "proved" if r != z3.unsat else "discharged without P5: encoding unsound", 0.0))
    # uniqueness of the exact hull
    C1, C2 = z3.Consts("C1 C2", Box)
    vmin, vmax = z3.Function("vmin", I, T), z3.Function("vmax", I, T)
    hyps2 = [n >= 1, P1(B, C1), P2(B, C1, z3.BoolVal(True)), P5(B, C1, wmin, wmax), P1(B, C2), P2(B, C2, z3.BoolVal(True)), P5(B, C2, vmin, vmax), kk >= 0, kk < n]
    check("M-EXACT-UNIQUE.min", hyps2, C1[kk, 0] == C2[kk, 0])
    check("M-EXACT-UNIQUE.max", hyps2, C1[kk, 1] == C2[kk, 1])
    return out


if __name__ == "__main__":
    for r in prove_all():
        print(r)
