"""Value domain of the symbolic executor: ints/bools are Python values when concrete and z3 terms otherwise;
arrays are (object, view) pairs over z3 arrays kept in the state's heap."""
import itertools

import z3

INT = z3.IntSort()
BOOL = z3.BoolSort()

_counter = itertools.count()


def fresh_name(prefix):
    return f"{prefix}!{next(_counter)}"


def fresh_int(prefix="v"):
    return z3.Int(fresh_name(prefix))


def fresh_bool(prefix="b"):
    return z3.Bool(fresh_name(prefix))


class VerifError(Exception):
    """The function is outside the verifier's reach (unsupported construct, binding failure). Never a violation."""


class Unsupported(VerifError):
    pass


def is_sym(v):
    return isinstance(v, z3.ExprRef)


def is_scalar(v):
    return isinstance(v, (int, bool)) or (is_sym(v) and (z3.is_int(v) or z3.is_bool(v)))


def is_boolv(v):
    return isinstance(v, bool) or (is_sym(v) and z3.is_bool(v))


def zint(v):
    """any scalar -> z3 Int term"""
    if isinstance(v, bool):
        return z3.IntVal(1 if v else 0)
    if isinstance(v, int):
        return z3.IntVal(v)
    if z3.is_bool(v):
        return z3.If(v, z3.IntVal(1), z3.IntVal(0))
    return v


def as_int(v):
    """scalar -> int-valued scalar (python int or z3 Int)"""
    if isinstance(v, bool):
        return int(v)
    if isinstance(v, int):
        return v
    if z3.is_bool(v):
        return z3.If(v, z3.IntVal(1), z3.IntVal(0))
    return v


def zbool(v):
    if isinstance(v, bool):
        return z3.BoolVal(v)
    if isinstance(v, int):
        return z3.BoolVal(v != 0)
    if z3.is_bool(v):
        return v
    return v != 0


def truth(v):
    """python truthiness -> python bool or z3 Bool"""
    if isinstance(v, bool):
        return v
    if isinstance(v, int):
        return v != 0
    if v is None:
        return False
    if is_sym(v):
        if z3.is_bool(v):
            return v
        return v != 0
    raise Unsupported(f"truth value of {type(v).__name__}")


def b_and(*xs):
    out = []
    for x in xs:
        x = truth(x)
        if x is False:
            return False
        if x is True:
            continue
        out.append(x)
    if not out:
        return True
    return out[0] if len(out) == 1 else z3.And(*out)


def b_or(*xs):
    out = []
    for x in xs:
        x = truth(x)
        if x is True:
            return True
        if x is False:
            continue
        out.append(x)
    if not out:
        return False
    return out[0] if len(out) == 1 else z3.Or(*out)


def b_not(x):
    x = truth(x)
    if isinstance(x, bool):
        return not x
    return z3.Not(x)


def b_implies(a, b):
    a = truth(a)
    b = truth(b)
    if a is False or b is True:
        return True
    if a is True:
        return b
    if b is False:
        return b_not(a)
    return z3.Implies(a, b)


def v_ite(c, a, b):
    c = truth(c)
    if c is True:
        return a
    if c is False:
        return b
    if is_boolv(a) and is_boolv(b):
        return z3.If(c, zbool(a), zbool(b))
    return z3.If(c, zint(a), zint(b))


def v_eq(a, b):
    if not is_sym(a) and not is_sym(b):
        return a == b
    if is_boolv(a) and is_boolv(b):
        return zbool(a) == zbool(b)
    return zint(a) == zint(b)


class ArrObj:
    __slots__ = ("id", "name", "ndim", "dtype", "shape")

    def __init__(self, name, dtype, shape):
        self.id = next(_counter)
        self.name = name
        self.dtype = dtype
        self.shape = list(shape)
        self.ndim = len(self.shape)

    def sort(self):
        return z3.ArraySort(*([INT] * self.ndim + [BOOL if self.dtype == "bool" else INT]))

    def fresh_term(self, tag=""):
        return z3.Const(fresh_name(f"{self.name}{tag}"), self.sort())


class Arr:
    """a view on an ArrObj: one entry per base axis, ('fix', e) or ('rng', start, length)"""

    __slots__ = ("obj", "axes")

    def __init__(self, obj, axes=None):
        self.obj = obj
        self.axes = axes if axes is not None else [("rng", 0, s) for s in obj.shape]

    @property
    def ndim(self):
        return sum(1 for a in self.axes if a[0] == "rng")

    @property
    def shape(self):
        return [a[2] for a in self.axes if a[0] == "rng"]

    @property
    def dtype(self):
        return self.obj.dtype

    def base_index(self, idxs):
        """view indices (one per rng axis) -> base indices"""
        out = []
        it = iter(idxs)
        for a in self.axes:
            if a[0] == "fix":
                out.append(a[1])
            elif isinstance(a[1], int) and a[1] == 0:
                out.append(next(it))  # keeps Select terms usable as E-matching patterns
            else:
                out.append(a[1] + next(it))
        return out

    def is_whole(self):
        return all(a[0] == "rng" and isinstance(a[1], int) and a[1] == 0 and (a[2] is s or (not is_sym(a[2]) and not is_sym(s) and a[2] == s))
                   for a, s in zip(self.axes, self.obj.shape))


class AExpr:
    """a computed (immutable) array: shape + element function"""

    __slots__ = ("shape", "fn", "dtype", "term")

    def __init__(self, shape, fn, dtype="i64"):
        self.shape = list(shape)
        self.fn = fn
        self.dtype = dtype
        self.term = None  # the z3 array term this is a snapshot of, when it is a whole array (old(A), pre(A), it0(A))

    @property
    def ndim(self):
        return len(self.shape)


class ListObj:
    """python list of ints: heap holds (length, z3 Array Int->Int)"""

    __slots__ = ("id", "name")

    def __init__(self, name="list"):
        self.id = next(_counter)
        self.name = name


class SliceV:
    __slots__ = ("lo", "hi")

    def __init__(self, lo, hi):
        self.lo = lo
        self.hi = hi


class Opaque:
    """a value the executor does not model (function objects, addresses, loggers)"""

    __slots__ = ("tag",)

    def __init__(self, tag):
        self.tag = tag

    def __repr__(self):
        return f"Opaque({self.tag})"


class FuncRef:
    __slots__ = ("qualname",)

    def __init__(self, qualname):
        self.qualname = qualname


class Lam:
    """spec-level lambda (contract language only)"""

    __slots__ = ("params", "body", "env")

    def __init__(self, params, body, env):
        self.params = params
        self.body = body
        self.env = env


DTYPE_RANGE = {
    "u8": (0, 255),
    "u16": (0, 65535),
    "i16": (-32768, 32767),
}


class RaiseV:
    """the evaluation raised an exception (produced by environment handlers)"""

    __slots__ = ("name",)

    def __init__(self, name):
        self.name = name


class SpecArr:
    """array-valued specification term (application of an uninterpreted function): kept as the z3 term itself"""

    __slots__ = ("term", "shape", "dtype")

    def __init__(self, term, shape, dtype="int"):
        self.term = term
        self.shape = list(shape)
        self.dtype = dtype

    @property
    def ndim(self):
        return len(self.shape)
