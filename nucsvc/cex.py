"""Counterexample search (unroll mode at pinned arities) and replay on the real function."""
import json
import os
import subprocess

import z3

from .state import *  # noqa
from .values import *  # noqa
from .verifier import Verifier

HERE = os.path.dirname(os.path.abspath(__file__))
NATIVE = os.path.join(os.path.dirname(HERE), "harness", "native.py")
VENV_PY = os.environ.get("NUCS_PY", "/venv/bin/python")
NP_DTYPE = {"i32": "int32", "i64": "int64", "u8": "uint8", "u16": "uint16", "i16": "int16", "bool": "bool", "int": "int64"}


def run_native(repo_root, calls, timeout=60):
    env = dict(os.environ, NUMBA_DISABLE_JIT="1", PYTHONDONTWRITEBYTECODE="1")
    p = subprocess.run([VENV_PY, NATIVE], input=json.dumps({"repo": repo_root, "calls": calls}), capture_output=True, text=True, timeout=timeout, env=env)
    if p.returncode != 0:
        raise RuntimeError("native harness failed: " + p.stderr[-2000:])
    return json.loads(p.stdout)


def native_args(fi, inputs):
    args = []
    for a in fi.node.args.args:
        v = inputs["params"].get(a.arg)
        if isinstance(v, dict) and "array" in v:
            v = dict(v, dtype=NP_DTYPE.get(v["dtype"], v["dtype"]))
        args.append(v)
    return args


def concrete_state(ver, con, fi, inputs, outputs=None, result=None):
    """build a State whose arrays hold concrete contents (z3 constant arrays)"""
    st = State()
    syms = {}

    def mk(name, enc, dtype_hint):
        import numpy as np
        if isinstance(enc, dict) and "array" in enc:
            shape = enc.get("shape") or list(np.array(enc["array"]).shape)
            dt = dtype_hint
            obj = ArrObj(name, dt, shape)
            a = np.array(enc["array"], dtype=object).reshape(shape) if shape and all(shape) else np.zeros(shape, dtype=object)
            term = z3.K(INT, z3.BoolVal(False) if dt == "bool" else z3.IntVal(0)) if len(shape) == 1 else None
            if term is None:
                ks = [z3.Int(fresh_name("c")) for _ in shape]
                term = z3.Lambda(ks, z3.BoolVal(False) if dt == "bool" else z3.IntVal(0))
            import itertools
            for ix in itertools.product(*[range(s) for s in shape]):
                v = a[ix]
                term = z3.Store(term, *[z3.IntVal(i) for i in ix], z3.BoolVal(bool(v)) if dt == "bool" else z3.IntVal(int(v)))
            st.heap[obj.id] = term
            return Arr(obj)
        if isinstance(enc, dict) and "list" in enc:
            lo = ListObj(name)
            t = z3.K(INT, z3.IntVal(0))
            for i, v in enumerate(enc["list"]):
                t = z3.Store(t, i, int(v))
            st.heap[lo.id] = (len(enc["list"]), t)
            return lo
        return enc

    import re
    for k, a in enumerate(fi.node.args.args):
        t = con.types.get(a.arg, "int")
        m = re.match(r"^(\w+)\[(.*)\]$", t) if isinstance(t, str) else None
        src = (outputs[k] if outputs is not None else inputs["params"].get(a.arg))
        v = mk(a.arg, src, m.group(1) if m else "int")
        st.env[a.arg] = v
        if m and isinstance(v, Arr):
            for d, s in zip([x.strip() for x in m.group(2).split(",")], v.obj.shape):
                if not d.lstrip("-").isdigit():
                    syms.setdefault(d, s)
    for g, t in con.ghost.items():
        m = re.match(r"^(\w+)\[(.*)\]$", t)
        if g in inputs.get("ghost", {}):
            st.ghost_env[g] = mk(g, inputs["ghost"][g], m.group(1) if m else "int")
    st.ghost_env.update(syms)
    return st


def replay(repo, reg, fi, con, inputs, repo_root):
    """run the real function on `inputs`; evaluate the contract's ensures concretely. Returns dict."""
    r = run_native(repo_root, [dict(func=fi.qualname, args=native_args(fi, inputs), timeout=5.0)])[0]
    rep = dict(function=fi.qualname, inputs=inputs, native=r, violated=[], evaluated=0)
    if r["timeout"]:
        rep["violated"].append("termination(watchdog 5s)")
        return rep
    if r["error"]:
        rep["violated"].append("exception:" + r["error"])
        return rep
    ver = Verifier(repo, Prover(timeout_ms=5000), reg, fi)
    pre = concrete_state(ver, con, fi, inputs)
    pre.old = pre
    out_state = concrete_state(ver, con, fi, inputs, outputs=r["args"])
    # the post-state uses the SAME array objects as the pre-state (so that old()/same() relate them), with the output contents
    post = pre.fork()
    post.env = dict(pre.env)
    for a in fi.node.args.args:
        pv, ov = pre.env.get(a.arg), out_state.env.get(a.arg)
        if isinstance(pv, Arr) and isinstance(ov, Arr):
            post.heap[pv.obj.id] = out_state.heap[ov.obj.id]
        elif isinstance(pv, ListObj) and isinstance(ov, ListObj):
            post.heap[pv.id] = out_state.heap[ov.id]
    post.ghost_env = dict(pre.ghost_env)
    post.old = pre
    # requires must hold on the input, else the model is not an in-contract input
    for label, clause, _t in con.clauses("requires"):
        g = ver.eval_spec(clause, pre, {})
        if not decide(g):
            rep["out_of_contract"] = label or clause
            return rep
    res = r["result"]
    if isinstance(res, dict) and "array" in res:
        res = None
    for label, clause, _t in con.clauses("ensures"):
        g = ver.eval_spec(clause, post, {"result": res})
        rep["evaluated"] += 1
        if not decide(g):
            rep["violated"].append(label)
    return rep


def decide(g):
    g = truth(g)
    if isinstance(g, bool):
        return g
    s = z3.simplify(g)
    if z3.is_true(s):
        return True
    if z3.is_false(s):
        return False
    sol = z3.Solver()
    sol.set("timeout", 5000)
    sol.add(z3.Not(s))
    return sol.check() == z3.unsat
