"""Interface contracts of the dispatch tables (DESIGN 3.4) as reusable clause lists."""

DH_TYPES = {"params": "opaque", "shr_domains_stack": "i32[H,D,2]", "not_entailed_propagators_stack": "bool[H,P]",
            "dom_update_stack": "u16[H,2]", "stacks_top": "u8[1]", "dom_idx": "int"}


def dom_heuristic_requires(k):
    return ["H >= 1 and H <= 256", "D <= 65535", f"stacks_top[0] + {k} < H", "0 <= dom_idx and dom_idx < D",
            "shr_domains_stack[stacks_top[0], dom_idx, MIN] < shr_domains_stack[stacks_top[0], dom_idx, MAX]"]


S, S0, U, NE = "shr_domains_stack", "old(shr_domains_stack)", "dom_update_stack", "not_entailed_propagators_stack"
T0 = "old(stacks_top)[0]"
T1 = "stacks_top[0]"


def dom_heuristic_ensures(kmax):
    lo0, hi0 = f"{S0}[{T0}, dom_idx, MIN]", f"{S0}[{T0}, dom_idx, MAX]"
    inl = lambda l, v: f"({S}[{l}, dom_idx, MIN] <= {v} and {v} <= {S}[{l}, dom_idx, MAX])"
    ev = lambda mask, l: (f"(implies({S}[{l}, dom_idx, MIN] != {lo0}, has({mask}, EVENT_MASK_MIN)) and implies({S}[{l}, dom_idx, MAX] != {hi0}, has({mask}, EVENT_MASK_MAX)) "
                          f"and implies({S}[{l}, dom_idx, MIN] == {S}[{l}, dom_idx, MAX], has({mask}, EVENT_MASK_GROUND)))")
    ens = [
        ("C09.height", f"{T1} > {T0} and {T1} <= {T0} + {kmax}"),
        ("C09.nonempty", f"forall(l, {T0}, {T1} + 1, {S}[l, dom_idx, MIN] <= {S}[l, dom_idx, MAX] and {lo0} <= {S}[l, dom_idx, MIN] and {S}[l, dom_idx, MAX] <= {hi0})"),
        ("C09.cover", f"forall(v, {lo0}, {hi0} + 1, exists(l, {T0}, {T1} + 1, {inl('l', 'v')}))"),
        ("C09.disjoint", f"forall(l, {T0}, {T1} + 1, forall(l2, l + 1, {T1} + 1, {S}[l, dom_idx, MAX] < {S}[l2, dom_idx, MIN] or {S}[l2, dom_idx, MAX] < {S}[l, dom_idx, MIN]))"),
        ("C09.others", f"forall(l, {T0}, {T1} + 1, forall(d, 0, D, implies(d != dom_idx, {S}[l, d, MIN] == {S0}[{T0}, d, MIN] and {S}[l, d, MAX] == {S0}[{T0}, d, MAX])))"),
        ("C09.below", f"forall(l, 0, {T0}, lvl_same({S}, {S0}, l, D))"),
        ("C09.flags", f"forall(l, 0, {T1} + 1, forall(p, 0, P, {NE}[l, p] == old({NE})[ite(l < {T0}, l, {T0}), p]))"),
        ("C09.events", f"0 <= result and result < 8 and {ev('result', T1)}"),
        ("C09.alternatives", f"forall(l, {T0}, {T1}, {U}[l, DOM_UPDATE_IDX] == dom_idx and {ev(f'{U}[l, DOM_UPDATE_EVENTS]', 'l')})"),
        ("C09.records_below", f"forall(l, 0, {T0}, {U}[l, 0] == old({U})[l, 0] and {U}[l, 1] == old({U})[l, 1])"),
        ("C09.records_wf", f"forall(l, {T0}, {T1}, {U}[l, DOM_UPDATE_EVENTS] < 8)"),
    ]
    return ens


DH_MODIFIES = ["shr_domains_stack", "not_entailed_propagators_stack", "dom_update_stack", "stacks_top"]
DH_TAGS = {"C09": ["C09", "C02"]}

VH_TYPES = {"params": "opaque", "decision_domains": "u16[K]", "shr_domains_stack": "i32[H,D,2]", "stacks_top": "u8[1]"}
VH_REQUIRES = ["H >= 1", "stacks_top[0] < H", "forall(k, 0, K, decision_domains[k] < D)"]
VH_ENSURES = [
    ("C02.range", "result == -1 or (0 <= result and result < D)"),
    ("C02.open", "implies(result != -1, shr_domains_stack[stacks_top[0], result, MIN] < shr_domains_stack[stacks_top[0], result, MAX] and exists(k, 0, K, decision_domains[k] == result))"),
    ("C02.found", "implies(result == -1, forall(k, 0, K, shr_domains_stack[stacks_top[0], decision_domains[k], MIN] >= shr_domains_stack[stacks_top[0], decision_domains[k], MAX]))"),
]
