"""Interface contracts of the dispatch tables (DESIGN 3.4) as reusable clause lists."""

DH_TYPES = {"params": "opaque", "shr_domains_stack": "i32[H,D,2]", "not_entailed_propagators_stack": "bool[H,P]",
            "dom_update_stack": "u16[H,2]", "stacks_top": "u8[1]", "dom_idx": "int"}


def dom_heuristic_requires(k):
    return ["H >= 1 and H <= 256", "D <= 65535", f"stacks_top[0] + {k} < H", "0 <= dom_idx and dom_idx < D",
            "shr_domains_stack[stacks_top[0], dom_idx, MIN] < shr_domains_stack[stacks_top[0], dom_idx, MAX]"]


S, S0, U, NE = "shr_domains_stack", "old(shr_domains_stack)", "dom_update_stack", "not_entailed_propagators_stack"
T0 = "old(stacks_top)[0]"
T1 = "stacks_top[0]"


def dom_heuristic_ensures(kmax):
    lo0, hi0 = f"{S0}[{T0}, dom_idx, MIN]", f"{S0}[{T0}, dom_idx, MAX]"
    inl = lambda l, v: f"({S}[{l}, dom_idx, MIN] <= {v} and {v} <= {S}[{l}, dom_idx, MAX])"
    ev = lambda mask, l: (f"(implies({S}[{l}, dom_idx, MIN] != {lo0}, has({mask}, EVENT_MASK_MIN)) and implies({S}[{l}, dom_idx, MAX] != {hi0}, has({mask}, EVENT_MASK_MAX)) "
                          f"and implies({S}[{l}, dom_idx, MIN] == {S}[{l}, dom_idx, MAX], has({mask}, EVENT_MASK_GROUND)))")
    ens = [
        ("C09.height", f"{T1} > {T0} and {T1} <= {T0} + {kmax}"),
        ("C09.nonempty", f"forall(l, {T0}, {T1} + 1, {S}[l, dom_idx, MIN] <= {S}[l, dom_idx, MAX] and {lo0} <= {S}[l, dom_idx, MIN] and {S}[l, dom_idx, MAX] <= {hi0})"),
        ("C09.cover", f"forall(v, {lo0}, {hi0} + 1, exists(l, {T0}, {T1} + 1, {inl('l', 'trig(v)')}))"),
        ("C09.disjoint", f"forall(l, {T0}, {T1} + 1, forall(l2, l + 1, {T1} + 1, {S}[l, dom_idx, MAX] < {S}[l2, dom_idx, MIN] or {S}[l2, dom_idx, MAX] < {S}[l, dom_idx, MIN]))"),
        ("C09.others", f"forall(l, {T0}, {T1} + 1, forall(d, 0, D, implies(d != dom_idx, {S}[l, d, MIN] == {S0}[{T0}, d, MIN] and {S}[l, d, MAX] == {S0}[{T0}, d, MAX])))"),
        ("C09.below", f"forall(l, 0, {T0}, lvl_same({S}, {S0}, l, D))"),
        ("C09.flags", f"forall(l, 0, {T1} + 1, forall(p, 0, P, {NE}[l, p] == old({NE})[ite(l < {T0}, l, {T0}), p]))"),
        ("C09.events", f"0 <= result and result < 8 and {ev('result', T1)}"),
        ("C09.alternatives", f"forall(l, {T0}, {T1}, {U}[l, DOM_UPDATE_IDX] == dom_idx and {ev(f'{U}[l, DOM_UPDATE_EVENTS]', 'l')})"),
        ("C09.records_below", f"forall(l, 0, {T0}, {U}[l, 0] == old({U})[l, 0] and {U}[l, 1] == old({U})[l, 1])"),
        ("C09.records_wf", f"forall(l, {T0}, {T1}, {U}[l, DOM_UPDATE_EVENTS] < 8)"),
        # every part is a strict sub-range (at least two non-empty disjoint parts): some bound of it moved
        ("C09.moved", f"forall(l, {T0}, {T1} + 1, {S}[l, dom_idx, MIN] != {lo0} or {S}[l, dom_idx, MAX] != {hi0})"),
    ]
    return ens


DH_MODIFIES = ["shr_domains_stack", "not_entailed_propagators_stack", "dom_update_stack", "stacks_top"]
DH_TAGS = {"C09": ["C09", "C02", "C08"]}

VH_TYPES = {"params": "opaque", "decision_domains": "u16[K]", "shr_domains_stack": "i32[H,D,2]", "stacks_top": "u8[1]"}
VH_REQUIRES = ["H >= 1", "stacks_top[0] < H", "forall(k, 0, K, decision_domains[k] < D)"]
VH_ENSURES = [
    ("C02.range", "result == -1 or (0 <= result and result < D)"),
    ("C02.open", "implies(result != -1, shr_domains_stack[stacks_top[0], result, MIN] < shr_domains_stack[stacks_top[0], result, MAX] and exists(k, 0, K, decision_domains[k] == result))"),
    ("C02.found", "implies(result == -1, forall(k, 0, K, shr_domains_stack[stacks_top[0], decision_domains[k], MIN] >= shr_domains_stack[stacks_top[0], decision_domains[k], MAX]))"),
]

# ------------------------------------------------------------------ engine state (DESIGN 3.3)
ENGINE_T = {
    "statistics": "i64[13]", "algorithms": "u8[P]", "var_bounds": "u16[PB,2]", "param_bounds": "u16[PB,2]",
    "dom_indices_arr": "u16[V]", "dom_offsets_arr": "i32[V]", "props_dom_indices": "u16[NV]", "props_dom_offsets": "i32[NV,1]",
    "props_parameters": "i32[NP]", "triggers": "u8[D,P]", "shr_domains_stack": "i32[H,D,2]", "not_entailed_propagators_stack": "bool[H,P]",
    "dom_update_stack": "u16[H,2]", "stacks_top": "u8[1]", "triggered_propagators": "bool[P]", "compute_domains_addrs": "opaque",
    "decision_domains": "u16[K]",
}
WF_STATIC = [
    ("wf.bounds", "PB >= P and PB >= 1"),
    ("wf.var_bounds", "forall(p, 0, P, var_bounds[p, RG_START] <= var_bounds[p, RG_END] and var_bounds[p, RG_END] <= NV)"),
    ("wf.param_bounds", "forall(p, 0, P, param_bounds[p, RG_START] <= param_bounds[p, RG_END] and param_bounds[p, RG_END] <= NP)"),
    ("wf.dom_indices", "forall(k, 0, NV, props_dom_indices[k] < D)"),
    ("wf.var_indices", "forall(v, 0, V, dom_indices_arr[v] < D)"),
    ("wf.triggers", "forall(d, 0, D, forall(p, 0, P, triggers[d, p] < 8))"),
    ("wf.decision", "forall(k, 0, K, decision_domains[k] < D)"),
]
WF_DYN = [
    ("wf.height", "H >= 1 and H <= 256 and D <= 65535"),
    ("wf.top", "stacks_top[0] < H"),
    ("wf.nonempty", "forall(d, 0, D, shr_domains_stack[stacks_top[0], d, MIN] <= shr_domains_stack[stacks_top[0], d, MAX])"),
    ("wf.records", "forall(l, 0, stacks_top[0], dom_update_stack[l, DOM_UPDATE_IDX] < D and dom_update_stack[l, DOM_UPDATE_EVENTS] < 8)"),
]
TOP = "stacks_top[0]"
SS, SS0 = "shr_domains_stack", "old(shr_domains_stack)"
NEs, NE0 = "not_entailed_propagators_stack", "old(not_entailed_propagators_stack)"
ST_ = "statistics"


def stat(i):
    return f"statistics[{i}]"


def dstat(i):
    return f"(statistics[{i}] - old(statistics)[{i}])"


CA_FRAME = [
    ("C08.top", "stacks_top[0] == old(stacks_top)[0]"),
    ("C08.levels", f"forall(l, 0, H, implies(l != {TOP}, lvl_same({SS}, {SS0}, l, D)))"),
    ("C07.flag_levels", f"forall(l, 0, H, implies(l != {TOP}, forall(p, 0, P, {NEs}[l, p] == {NE0}[l, p])))"),
    ("C07.flags_only_cleared", f"forall(p, 0, P, implies({NEs}[{TOP}, p], {NE0}[{TOP}, p]))"),
]
CA_FRAME_IFACE = [
    ("C08.top", "stacks_top[0] == old(stacks_top)[0]"),
    ("C08.levels", f"forall(l, 0, {TOP}, lvl_same({SS}, {SS0}, l, D))"),
    ("C07.flag_levels", f"forall(l, 0, {TOP}, forall(p, 0, P, {NEs}[l, p] == {NE0}[l, p]))"),
    ("C07.flags_only_cleared", f"forall(p, 0, P, implies({NEs}[{TOP}, p], {NE0}[{TOP}, p]))"),
]
CA_SHRINK = ("C08.shrink", f"implies(result != PROBLEM_INCONSISTENT, forall(d, 0, D, {SS0}[{TOP}, d, MIN] <= {SS}[{TOP}, d, MIN] and {SS}[{TOP}, d, MIN] <= {SS}[{TOP}, d, MAX] and {SS}[{TOP}, d, MAX] <= {SS0}[{TOP}, d, MAX]))")
CA_STATUS = ("C01.status", "result == PROBLEM_INCONSISTENT or result == PROBLEM_UNBOUND or result == PROBLEM_BOUND")
CA_BOUND = ("C01.bound", f"implies(result == PROBLEM_BOUND, forall(d, 0, D, {SS}[{TOP}, d, MIN] == {SS}[{TOP}, d, MAX]))")
CA_UNBOUND = ("C01.unbound", f"implies(result == PROBLEM_UNBOUND, exists(d, 0, D, trig(d) == d and {SS}[{TOP}, d, MIN] < {SS}[{TOP}, d, MAX]))")

PROP_IFACE_T = {"domains": "i32[n,2]", "parameters": "i32[m]"}
PROP_IFACE_REQ = [("box_nonempty", "forall(k, 0, n, domains[k, MIN] <= domains[k, MAX])")]
PROP_IFACE_ENS = [
    ("status", "result == PROP_INCONSISTENCY or result == PROP_CONSISTENCY or result == PROP_ENTAILMENT"),
    ("P1", "implies(result != PROP_INCONSISTENCY, forall(k, 0, n, old(domains)[k, MIN] <= domains[k, MIN] and domains[k, MIN] <= domains[k, MAX] and domains[k, MAX] <= old(domains)[k, MAX]))"),
]


# ------------------------------------------------------------------ semantic layer
V_DEF = "forall(p, 0, P, forall(k, 0, var_bounds[p, RG_END] - var_bounds[p, RG_START], tv(p)[k] == sigma[props_dom_indices[var_bounds[p, RG_START] + k]] + props_dom_offsets[var_bounds[p, RG_START] + k, 0]))"
SOL_DEF = "sol() == forall(p, 0, P, rel_holds(p))"
PROP_IFACE_SOL = ("P2.sol", "implies(ufun_bool('Rel', pidx, tvec) and inbox(tvec, old(domains), n), result != PROP_INCONSISTENCY and inbox(tvec, domains, n))")
CA_PRESERVE = ("C02.preserve", f"implies(sol() and in_box({SS0}, {TOP}), result != PROBLEM_INCONSISTENT and in_box({SS}, {TOP}))")

PROP_IFACE_ACC = [
    ("P3.acc", "implies(result == PROP_CONSISTENCY and forall(k, 0, n, domains[k, MIN] == tvec[k] and domains[k, MAX] == tvec[k]), ufun_bool('Rel', pidx, tvec))"),
    ("P4.ent", "implies(result == PROP_ENTAILMENT and inbox(tvec, domains, n), ufun_bool('Rel', pidx, tvec))"),
]
ALLFULL = ("C01.fullmask", "forall(p, 0, P, fullmask(p))")
# K: an enabled constraint whose variables are all instantiated to sigma holds on sigma, unless it is queued (and is not the one that just ran)
ACC_K = lambda S, T, last: f"forall(p, 0, P, implies({NEs}[{TOP}, p] and onpoint({S}, {TOP}, p) and (not {T}[p] or p == {last}), rel_holds(p)))"
# J: a disabled constraint holds on every point of the current box (specialised to sigma)
ACC_J = lambda S: f"forall(p, 0, P, implies(not {NEs}[{TOP}, p] and in_box({S}, {TOP}), rel_holds(p)))"
# A: every enabled constraint whose variables are all instantiated to sigma holds on sigma (K with an empty queue)
ACC_A = lambda S: f"forall(p, 0, P, implies({NEs}[{TOP}, p] and onpoint({S}, {TOP}, p), rel_holds(p)))"
ACC_REQ = [ALLFULL, ("C01.K0", ACC_K(SS, "triggered_propagators", "-1")), ("C01.J0", ACC_J(SS))]
ACC_ENS = [("C01.accept", f"implies(result != PROBLEM_INCONSISTENT, {ACC_A(SS)})"), ("C01.J", f"implies(result != PROBLEM_INCONSISTENT, {ACC_J(SS)})")]

# ------------------------------------------------------------------ fixpoint layer (C08)
NOALIAS = ("C08.noalias", "forall(p, 0, P, noalias(p))")  # no constraint has one shared domain at two of its positions
AFFEQ_FULL = ("C08.affine_eq_full", "forall(p, 0, P, implies(algorithms[p] == ALG_AFFINE_EQ, fullmask(p)))")  # get_triggers_affine_eq: MIN|MAX everywhere
# KF: an enabled constraint is at a fixpoint on the current row unless it is queued (or is the one that just ran, saw its own output, and is idempotent)
FIX_K = lambda S, T, last: f"forall(p, 0, P, implies({NEs}[{TOP}, p] and (not {T}[p] or p == {last}), fixp({S}, {TOP}, p)))"
FIX_A = lambda S: f"forall(p, 0, P, implies({NEs}[{TOP}, p], fixp({S}, {TOP}, p)))"
FIX_REQ = [NOALIAS, AFFEQ_FULL, ("C08.K0", FIX_K(SS, "triggered_propagators", "-1"))]
FIX_ENS = [("C08.fixpoint", f"implies(result != PROBLEM_INCONSISTENT, {FIX_A(SS)})")]
