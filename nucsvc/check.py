"""Per-property check driver: obligations -> verdict -> evidence. Exit codes: 0 held / 1 violation / 2 undecided / 3 checker error."""
import hashlib
import json
import multiprocessing as mp
import os
import sys
import time
import traceback

ROOT = os.path.dirname(os.path.dirname(os.path.abspath(__file__)))
sys.path.insert(0, ROOT)

from nucsvc import GENERATOR_VERSION  # noqa
from nucsvc.contracts import Registry  # noqa
from nucsvc.source import Repo, REPO  # noqa
from nucsvc.state import Prover  # noqa
from nucsvc.values import VerifError  # noqa

CONTRACT_DIR = os.path.join(ROOT, "contracts")
CACHE_DIR = os.path.join(ROOT, ".cache")
EVIDENCE_DIR = os.path.join(ROOT, "evidence")
REPLAY_DIR = os.path.join(ROOT, "replays")
BASELINE = os.path.join(ROOT, "baseline", "obligations.json")
KNOWN = os.path.join(ROOT, "known_findings.json")

PREFIX_TAGS = {"P1": ["C05", "C08"], "P2": ["C05"], "P3": ["C06", "C01"], "P4": ["C07", "C01"], "P5": ["C14"], "status": ["C05"]}
KIND_TAGS = {"bounds": ["C16"], "range": ["C19"], "term": ["C04"], "frame": ["C13"], "div": ["C16"]}


def tree_sha(root):
    h = hashlib.sha256()
    for d, _ds, fs in sorted(os.walk(os.path.join(root, "nucs"))):
        for f in sorted(fs):
            if f.endswith(".py"):
                p = os.path.join(d, f)
                h.update(p.encode())
                h.update(open(p, "rb").read())
    return h.hexdigest()


def engine_sha():
    h = hashlib.sha256()
    for sub in ("nucsvc", "contracts", "harness", "spec"):
        for d, _ds, fs in sorted(os.walk(os.path.join(ROOT, sub))):
            for f in sorted(fs):
                if f.endswith(".py"):
                    h.update(open(os.path.join(d, f), "rb").read())
    return h.hexdigest()


def ob_tags(ob, con):
    tags = set(ob["tags"])
    for pref, props in list(PREFIX_TAGS.items()) + list((con.tags or {}).items() if con else []):
        if ob["label"].startswith(pref) or ("." + pref) in ob["label"]:
            tags |= set(props)
    tags |= set(KIND_TAGS.get(ob["kind"], []))
    return tags


def base_key(ob):
    return f"{ob['function'].split('::')[1]}/{ob['kind']}.{ob['label']}"


# ---------------------------------------------------------------------------------------------- worker tasks
_G = {}


def _ctx():
    if "repo" not in _G:
        _G["repo"] = Repo()
        _G["reg"] = Registry().load_dir(CONTRACT_DIR)
    return _G["repo"], _G["reg"]


def task_verify(args):
    """(qualname, arity|None, timeout_ms) -> result dict (picklable)"""
    qualname, arity, timeout_ms = args
    from nucsvc.verifier import Verifier

    repo, reg = _ctx()
    t0 = time.time()
    out = dict(function=qualname, arity=arity, obligations=[], error=None, paths=0, incomplete=[], raised=0, used_contracts=[])
    try:
        fi = repo.functions[qualname.split("#")[0]]
        out.update(fi.describe())
        out["function"] = qualname
        if arity is None and reg.contracts[qualname].unroll_only:
            out["error"] = "unroll-only contract"
            return out
        v = Verifier(repo, Prover(timeout_ms=timeout_ms), reg, fi, key=qualname)
        import signal

        class _Budget(Exception):
            pass

        def _alarm(*_a):
            raise _Budget()

        limit = int(os.environ.get("NUCSVC_UNROLL_SECONDS", "420")) if arity is not None else 0
        if limit:
            signal.signal(signal.SIGALRM, _alarm)
            signal.alarm(limit)
        try:
            v.verify(arity)
        except VerifError as e:
            out["error"] = f"{type(e).__name__}: {e}"
        except _Budget:
            out["error"] = f"Unsupported: unroll mode exceeded {limit} s at this arity (path explosion); no verdict from this run"
            out["incomplete"] = [out["error"]]
        finally:
            if limit:
                signal.alarm(0)
        out["obligations"] = [o.to_json() for o in v.obligations]
        if v.binding_notes and arity is None:
            if out["error"] is None and any(o.status != "proved" for o in v.obligations):
                out["error"] = "VerifError: " + "; ".join(v.binding_notes) + " (contract tried with ordinal binding: not all obligations discharged)"
                out["obligations"] = []
            else:
                out["binding_notes"] = list(v.binding_notes)
        out["paths"] = v.paths
        out["incomplete"] = (out.get("incomplete") or []) + v.incomplete
        out["raised"] = len(v.raised)
        out["used_contracts"] = sorted(v.used_contracts)
        out["solver_time"] = v.prover.solver_time
    except Exception as e:  # checker crash
        out["error"] = "CRASH: " + "".join(traceback.format_exception_only(type(e), e)).strip()
        out["crash"] = traceback.format_exc()
    out["wall"] = time.time() - t0
    return out


def task_replay(args):
    qualname, inputs = args
    from nucsvc import cex

    repo, reg = _ctx()
    fi = repo.functions[qualname.split("#")[0]]
    try:
        return cex.replay(repo, reg, fi, reg.contracts[qualname], inputs, repo.root)
    except Exception as e:
        return dict(function=qualname, inputs=inputs, error=f"{type(e).__name__}: {e}", violated=[], evaluated=0)


class Cache:
    def __init__(self, key):
        self.dir = os.path.join(CACHE_DIR, key[:24])
        os.makedirs(self.dir, exist_ok=True)

    def path(self, name):
        return os.path.join(self.dir, hashlib.sha256(name.encode()).hexdigest()[:32] + ".json")

    def get(self, name):
        p = self.path(name)
        if os.path.exists(p):
            try:
                return json.load(open(p))
            except Exception:
                return None
        return None

    def put(self, name, val):
        tmp = self.path(name) + f".{os.getpid()}.tmp"
        json.dump(val, open(tmp, "w"))
        os.replace(tmp, self.path(name))


def run_tasks(fn, tasks, cache, names, jobs=None):
    """run tasks through a fork pool with a content-addressed cache; returns results in order"""
    results = [None] * len(tasks)
    todo = []
    for k, (t, n) in enumerate(zip(tasks, names)):
        if os.environ.get("VERIF_NOCACHE"):
            r = None
        else:
            r = cache.get(n)
        if r is not None:
            r["cached"] = True
            results[k] = r
        else:
            todo.append(k)
    if todo:
        jobs = jobs or min(16, max(1, len(todo)))
        if jobs == 1 or len(todo) == 1:
            for k in todo:
                results[k] = fn(tasks[k])
        else:
            ctx = mp.get_context("fork")
            # hard wall-clock cap per batch: every budget inside a task is a z3 resource limit or a SIGALRM that needs the interpreter back; a worker
            # stuck in native code (observed once: three checks of a heavily loaded matrix run burnt 100+ CPU minutes each) must not hang the check
            cap = float(os.environ.get("NUCSVC_HARD_CAP_S", "3000"))
            pool = ctx.Pool(jobs)
            try:
                pending = [(k, pool.apply_async(fn, (tasks[k],))) for k in todo]
                t_end = time.time() + cap
                for k, ar in pending:
                    try:
                        results[k] = ar.get(timeout=max(1.0, t_end - time.time()))
                    except mp.TimeoutError:
                        q = tasks[k][0] if isinstance(tasks[k], tuple) else str(tasks[k])
                        results[k] = dict(function=q, arity=tasks[k][1] if isinstance(tasks[k], tuple) and len(tasks[k]) > 1 else None, obligations=[], paths=0, incomplete=["hard cap"], raised=0,
                                          used_contracts=[], error=f"Unsupported: task exceeded the hard wall-clock cap of {int(cap)} s (no verdict from this run)", hard_cap=True, inputs=None, violated=[], evaluated=0)
            finally:
                pool.terminate()
                pool.join()
        for k in todo:
            if not (results[k].get("error") or "").startswith("CRASH") and not results[k].get("hard_cap"):
                cache.put(names[k], results[k])
    return results
