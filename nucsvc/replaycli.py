"""bin/check --replay <path>: re-executes a recorded counterexample on the real code of the current tree."""
import json
import os
import subprocess
import sys

from .check import ROOT
from .contracts import Registry
from .source import Repo
from . import cex


def main(path):
    if not os.path.isabs(path):
        path = os.path.join(ROOT, path)
    rec = json.load(open(path))
    pid = rec.get("property")
    if rec.get("function") and rec.get("inputs"):
        repo = Repo()
        reg = Registry().load_dir(os.path.join(ROOT, "contracts"))
        q = rec["function"]
        fi = repo.functions[q.split("#")[0]]
        r = cex.replay(repo, reg, fi, reg.contracts[q], rec["inputs"], repo.root)
        print(json.dumps(dict(native=r["native"], violated=r["violated"], out_of_contract=r.get("out_of_contract")), default=str)[:2000])
        if r["violated"]:
            print(f"VIOLATION property={pid} replay={os.path.relpath(path, ROOT)}")
            return 1
        print("the recorded input no longer violates the contract on this tree")
        return 0
    if rec.get("suite"):
        # bounded witness: re-run the suite for the property and look for the same clause
        env = dict(os.environ, NUMBA_DISABLE_JIT="1", NUCS_REPO=os.environ.get("NUCS_REPO", "/repo"))
        p = subprocess.run([os.environ.get("NUCS_PY", "/venv/bin/python"), os.path.join(ROOT, "harness", "bounded.py"), rec["suite"], pid, "quick", "0"], capture_output=True, text=True, env=env)
        out = json.loads(p.stdout.strip().splitlines()[-1]) if p.returncode == 0 else dict(violations=[], error=p.stderr[-500:])
        same = [v for v in out.get("violations", []) if v.get("clause") == rec.get("clause")]
        print(json.dumps(dict(suite=rec["suite"], clause=rec.get("clause"), reproduced=len(same), first=(same or [None])[0]), default=str)[:2000])
        if same:
            print(f"VIOLATION property={pid} replay={os.path.relpath(path, ROOT)}")
            return 1
        return 0
    print(json.dumps(rec, default=str)[:2000])
    print("this replay file records an obligation without a failing input (no-failing-input-found): re-run the check itself")
    return 0
