"""Expression evaluation shared by program text and contract language."""
import ast

import z3

from .state import *  # noqa
from .values import *  # noqa

EXPAND_LIMIT = 48
UFUNS = {}
PYDIV = z3.Function("pydiv", INT, INT, INT)
PYMOD = z3.Function("pymod", INT, INT, INT)


def _div_axiom():
    a, b = z3.Ints("da db")
    q, r = PYDIV(a, b), PYMOD(a, b)
    body = z3.Implies(b != 0, z3.And(a == b * q + r, z3.Implies(b > 0, z3.And(r >= 0, r < b)), z3.Implies(b < 0, z3.And(r <= 0, r > b))))
    return z3.ForAll([a, b], body, patterns=[q, r])


class Evaluator:
    def __init__(self, repo, prover, contracts, fi=None):
        self.repo = repo
        self.prover = prover
        self.contracts = contracts
        self.fi = fi  # function under verification
        self.module = fi.module if fi else None
        self.obligations = []
        self.ob_counter = {}
        self.cur_tags = set()
        self.macros = contracts.macros if contracts else {}
        self.sum_funcs = {}
        self.ufuns = UFUNS  # uninterpreted specification functions are global (same symbol in every contract)
        self.axioms = []  # global facts (division, sum unfoldings), valid in every state
        self._div_axiom = False
        self._div_instances = set()
        self.unroll = False  # unroll mode: concrete arities, loops unrolled
        self.check_bounds = True
        self.line = 0
        self.assumed = []  # descriptions of assumptions used
        self.stop_on_fail = False

    # ------------------------------------------------------------------ obligations
    def oblige(self, st, kind, label, goal, tags=None, line=None):
        goal = truth(goal)
        if st.guards:
            goal = b_implies(b_and(*st.guards), goal)
        fname = self.fi.qualname.split("::")[1] if self.fi else "spec"
        key = (kind, label, line or self.line)
        n = self.ob_counter.get(key, 0)
        self.ob_counter[key] = n + 1
        oid = f"{fname}/{kind}{'.' + label if label else ''}@{line or self.line}" + (f"#{n}" if n else "")
        ob = Obligation(oid, kind, label, self.fi.qualname if self.fi else "spec", line or self.line, set(tags or self.cur_tags))
        if goal is True:
            ob.status = "proved"
            ob.backend = "trivial"
        elif goal is False and not st.pc:
            ob.status = "failed"
        else:
            import os as _os
            if _os.environ.get("NUCSVC_DUMP") and _os.environ["NUCSVC_DUMP"] in oid:
                _s = z3.Solver()
                for _f in self.axioms + st.pc:
                    _s.add(_f)
                _s.add(z3.Not(zbool(goal)))
                open("/tmp/dump_%s.smt2" % oid.replace("/", "_"), "w").write(_s.to_smt2())
            status, _m, dt = self.prover.check_valid(self.axioms + st.pc, goal)
            ob.status = status
            ob.time = dt
            if status != "proved":
                ob.detail = self._short(goal)
        self.obligations.append(ob)
        if ob.status == "proved" or kind in ("bounds", "range", "div"):
            # assume after assert (avoids cascades)
            st.pc.append(zbool(goal)) if goal is not True and goal is not False else None
        return ob

    def _short(self, goal):
        s = str(goal)
        return s if len(s) < 400 else s[:400] + "..."

    # ------------------------------------------------------------------ names
    def lookup(self, name, st):
        if st.spec and name in st.ghost_env and name not in st.env.get("__bound__", ()):
            return st.ghost_env[name]
        if name in st.env:
            return st.env[name]
        if self.module is not None and name in self.module.consts:
            return self.module.consts[name]
        if name in self.repo.consts:
            return self.repo.consts[name]
        if name in ("True", "False", "None"):
            return {"True": True, "False": False, "None": None}[name]
        if self.module is not None:
            f = self.repo.resolve(self.module, name)
            if f is not None:
                return FuncRef(f.qualname)
            if name in self.module.imports or name.isupper():
                return Opaque(name)
        if name in ("np", "sys", "logger", "numpy", "copy", "operator"):
            return Opaque(name)
        if st.spec and isinstance(st.env.get("self"), dict):
            # spec macros written over the engine's parameter names, used inside a method: self.<name> / self.problem.<name>
            me = st.env["self"]
            if name in me:
                return me[name]
            if isinstance(me.get("problem"), dict) and name in me["problem"]:
                return me["problem"][name]
        raise Unsupported(f"unknown name {name!r} (line {self.line})")

    # ------------------------------------------------------------------ arrays
    def term(self, st, obj):
        return st.heap[obj.id]

    def select(self, st, arr, idxs):
        """read one cell of a view; idxs per rng axis"""
        b = arr.base_index(idxs)
        v = z3.Select(self.term(st, arr.obj), *[zint(i) for i in b])
        if not st.spec and arr.dtype in DTYPE_RANGE and False:
            pass
        return v

    def read_cell(self, st, arr, idxs):
        v = z3.simplify(self.select(st, arr, idxs))
        if z3.is_int_value(v):
            return v.as_long()
        if z3.is_true(v) or z3.is_false(v):
            return z3.is_true(v)
        if arr.dtype in DTYPE_RANGE and not st.spec:
            lo, hi = DTYPE_RANGE[arr.dtype]
            st.pc.append(z3.And(v >= lo, v <= hi))
        return v

    def norm_index(self, st, i, length, what):
        """python/numpy index normalisation with an in-bounds obligation"""
        i = as_int(i)
        if isinstance(i, int) and i < 0:
            i2 = length + i
            if self.check_bounds and not st.spec:
                self.oblige(st, "bounds", what, i2 >= 0 if is_sym(i2) else bool(i2 >= 0), tags={"C16"})
            return i2
        if self.check_bounds and not st.spec:
            if isinstance(i, int) and isinstance(length, int):
                ok = 0 <= i < length
            else:
                ok = b_and(i >= 0, i < length)
            self.oblige(st, "bounds", what, ok, tags={"C16"})
        return i

    def index(self, st, arr, idxs, what="idx"):
        """arr[idxs] -> scalar | Arr | AExpr ; idxs is a list (tuple index) of scalars / SliceV / arrays"""
        if isinstance(arr, AExpr):
            return self.index_aexpr(st, arr, idxs, what)
        fancy = [k for k, i in enumerate(idxs) if isinstance(i, (Arr, AExpr))]
        if fancy:
            return self.index_fancy(st, arr, idxs, what)
        axes = []
        it = iter(idxs)
        used = 0
        for a in arr.axes:
            if a[0] == "fix":
                axes.append(a)
                continue
            try:
                i = next(it)
                used += 1
            except StopIteration:
                axes.append(a)
                continue
            _k, start, length = a
            if isinstance(i, SliceV):
                lo, hi = i.lo, i.hi
                lo = 0 if lo is None else as_int(lo)
                hi = length if hi is None else as_int(hi)
                if isinstance(lo, int) and lo < 0:
                    lo = length + lo
                if isinstance(hi, int) and hi < 0:
                    hi = length + hi
                if self.check_bounds and not st.spec:
                    ok = b_and(0 <= lo if not isinstance(lo, int) else lo >= 0, lo <= hi, hi <= length)
                    self.oblige(st, "bounds", what + ".slice", ok, tags={"C16"})
                axes.append(("rng", start + lo, hi - lo))
            else:
                i = self.norm_index(st, i, length, what)
                axes.append(("fix", start + i))
        if used < len(idxs):
            raise Unsupported("too many indices")
        out = Arr(arr.obj, axes)
        if out.ndim == 0:
            return self.read_cell(st, out, [])
        return out

    def index_fancy(self, st, arr, idxs, what):
        # A[e0, IDX, ...] : gather along the axis indexed by an integer array (bool masks are handled by the caller)
        src = self.to_aexpr(st, arr)
        pos = [k for k, i in enumerate(idxs) if isinstance(i, (Arr, AExpr))]
        if len(pos) != 1:
            raise Unsupported("several fancy indices")
        p = pos[0]
        ia = self.to_aexpr(st, idxs[p])
        if ia.ndim != 1:
            raise Unsupported("fancy index must be 1-D")
        full = list(idxs) + [SliceV(None, None)] * (src.ndim - len(idxs))
        if any(isinstance(i, SliceV) and (i.lo is not None or i.hi is not None) for i in full):
            raise Unsupported("slice next to fancy index")
        if self.check_bounds and not st.spec:
            k = fresh_int("g")
            e = ia.fn([k])
            self.oblige(st, "bounds", what + ".gather",
                        z3.ForAll([k], z3.Implies(z3.And(k >= 0, k < zint(ia.shape[0])), z3.And(zint(e) >= 0, zint(e) < zint(src.shape[p])))), tags={"C16"})
        fixed = {}
        for k, i in enumerate(full):
            if not isinstance(i, (SliceV, Arr, AExpr)):
                fixed[k] = self.norm_index(st, i, src.shape[k], what)
        out_axes = [k for k in range(src.ndim) if k not in fixed]  # includes p
        shape = [ia.shape[0] if k == p else src.shape[k] for k in out_axes]

        def fn(ix, src=src, fixed=fixed, out_axes=out_axes, p=p, ia=ia):
            full_ix = [None] * src.ndim
            for k, v in fixed.items():
                full_ix[k] = v
            for k, v in zip(out_axes, ix):
                full_ix[k] = ia.fn([v]) if k == p else v
            return src.fn(full_ix)

        return AExpr(shape, fn, src.dtype)

    def index_aexpr(self, st, ae, idxs, what):
        full = list(idxs) + [SliceV(None, None)] * (ae.ndim - len(idxs))
        fixed = {}
        offs = {}
        shape = []
        for k, i in enumerate(full):
            if isinstance(i, SliceV):
                lo = 0 if i.lo is None else as_int(i.lo)
                hi = ae.shape[k] if i.hi is None else as_int(i.hi)
                if isinstance(lo, int) and lo < 0:
                    lo = ae.shape[k] + lo
                if isinstance(hi, int) and hi < 0:
                    hi = ae.shape[k] + hi
                offs[k] = lo
                shape.append(hi - lo)
            else:
                fixed[k] = self.norm_index(st, i, ae.shape[k], what)

        def fn(ix, ae=ae, fixed=fixed, offs=offs):
            it = iter(ix)
            return ae.fn([fixed[k] if k in fixed else offs[k] + next(it) for k in range(ae.ndim)])

        if not shape:
            return fn([])
        return AExpr(shape, fn, ae.dtype)

    def to_aexpr(self, st, v):
        if isinstance(v, AExpr):
            return v
        if isinstance(v, SpecArr):
            return AExpr(v.shape, lambda ix, t=v.term: z3.Select(t, *[zint(i) for i in ix]), v.dtype)
        if isinstance(v, Arr):
            term = self.term(st, v.obj)
            arr = v

            def fn(ix, term=term, arr=arr):
                return z3.Select(term, *[zint(i) for i in arr.base_index(ix)])

            return AExpr(arr.shape, fn, arr.dtype)
        raise Unsupported(f"not an array: {type(v).__name__}")

    def z3_array(self, st, v):
        """any array value -> a z3 array term (exactly the underlying term when there is one)"""
        if isinstance(v, SpecArr):
            return v.term
        if isinstance(v, Arr) and v.is_whole():
            return st.heap[v.obj.id]
        if isinstance(v, AExpr) and v.term is not None:
            return v.term
        ae = self.to_aexpr(st, v)
        ks = [z3.Int(fresh_name("u")) for _ in range(ae.ndim)]
        body = ae.fn(ks)
        return z3.Lambda(ks, zbool(body) if ae.dtype == "bool" else zint(body))

    def materialize(self, st, ae, name="tmp"):
        if isinstance(ae, Arr):
            ae = self.to_aexpr(st, ae)
        obj = ArrObj(name, ae.dtype, ae.shape)
        ks = [z3.Int(fresh_name("m")) for _ in range(obj.ndim)]
        body = ae.fn(ks)
        body = zbool(body) if obj.dtype == "bool" else zint(body)
        st.heap[obj.id] = z3.Lambda(ks, body)
        return Arr(obj)

    def store(self, st, target, value):
        """target: Arr view (any ndim>=0 region) ; value scalar or array"""
        obj = target.obj
        term = self.term(st, obj)
        if target.ndim == 0:
            idx = [zint(i) for i in target.base_index([])]
            v = zbool(truth(value)) if obj.dtype == "bool" else zint(value)
            self.range_check(st, obj, value)
            st.heap[obj.id] = z3.Store(term, *idx, v)
            return
        ks = [z3.Int(fresh_name("s")) for _ in range(obj.ndim)]
        conds = []
        view_ix = []
        for k, a in zip(ks, target.axes):
            if a[0] == "fix":
                conds.append(k == zint(a[1]))
            else:
                conds.append(z3.And(k >= zint(a[1]), k < zint(a[1]) + zint(a[2])))
                view_ix.append(k - zint(a[1]))
        if isinstance(value, tuple) and all(is_scalar(x) for x in value):
            elems = list(value)

            def tfn(ix, elems=elems):
                acc = elems[-1]
                for k in range(len(elems) - 2, -1, -1):
                    acc = v_ite(v_eq(ix[0], k), elems[k], acc)
                return acc

            value = AExpr([len(elems)], tfn, "i64")
        if isinstance(value, (Arr, AExpr)):
            src = self.to_aexpr(st, value)
            if src.ndim > target.ndim:
                raise Unsupported("store: source has more dimensions than target")
            # numpy broadcasting: align trailing axes
            ix = view_ix[target.ndim - src.ndim:]
            ix = [0 if (isinstance(s, int) and s == 1 and not (isinstance(t, int) and t == 1)) else i for i, s, t in zip(ix, src.shape, target.shape[target.ndim - src.ndim:])]
            val = src.fn(ix)
            if self.check_bounds and not st.spec:
                for s, t in zip(src.shape, target.shape[target.ndim - src.ndim:]):
                    if isinstance(s, int) and s == 1:
                        continue
                    self.oblige(st, "bounds", "store.shape", v_eq(s, t), tags={"C16"})
            if obj.dtype in DTYPE_RANGE and src.dtype != obj.dtype:
                lo, hi = DTYPE_RANGE[obj.dtype]
                jj = [z3.Int(fresh_name("r")) for _ in range(src.ndim)]
                e = zint(src.fn(jj))
                rng = z3.And(*[z3.And(j >= 0, j < zint(s)) for j, s in zip(jj, src.shape)])
                self.oblige(st, "range", f"{obj.name}:{obj.dtype}", z3.ForAll(jj, z3.Implies(rng, z3.And(e >= lo, e <= hi))), tags={"C19"})
        else:
            val = value
            self.range_check(st, obj, value)
        val = zbool(truth(val)) if obj.dtype == "bool" else zint(val)
        st.heap[obj.id] = z3.Lambda(ks, z3.If(z3.And(*conds), val, z3.Select(term, *ks)))

    def range_check(self, st, obj, value):
        if obj.dtype in DTYPE_RANGE and not st.spec:
            lo, hi = DTYPE_RANGE[obj.dtype]
            v = as_int(value)
            ok = (lo <= v <= hi) if isinstance(v, int) else z3.And(v >= lo, v <= hi)
            self.oblige(st, "range", f"{obj.name}:{obj.dtype}", ok, tags={"C19"})

    # ------------------------------------------------------------------ arithmetic
    def floordiv(self, st, a, b, want="q"):
        a = as_int(a)
        b = as_int(b)
        if isinstance(a, int) and isinstance(b, int):
            if b == 0:
                self.oblige(st, "div", "zero", False)
                return 0
            return a // b if want == "q" else a % b
        if not st.spec:
            self.oblige(st, "div", "nonzero", b != 0)
        if st.spec and not isinstance(b, int):
            # python floor division by a symbolic divisor: uninterpreted functions constrained by a quantified axiom (see Evaluator.__init__)
            q_, r_ = PYDIV(zint(a), zint(b)), PYMOD(zint(a), zint(b))
            inst = z3.Implies(zint(b) != 0, z3.And(zint(a) == zint(b) * q_ + r_, z3.Implies(zint(b) > 0, z3.And(r_ >= 0, r_ < zint(b))), z3.Implies(zint(b) < 0, z3.And(r_ <= 0, r_ > zint(b)))))
            key_ = inst.sexpr()
            if key_ not in self._div_instances:
                self._div_instances.add(key_)
                self.axioms.append(inst)  # ground instance of the definition of python floor division
            return q_ if want == "q" else r_
        if isinstance(b, int):
            a, b = zint(a), zint(b)
            if isinstance(b, int) or z3.is_int_value(b):
                bv = b if isinstance(b, int) else b.as_long()
                q = a / b if bv > 0 else (-a) / (-b)
            else:
                q = z3.If(b > 0, a / b, (-a) / (-b))
            return q if want == "q" else a - b * q
        q = PYDIV(zint(a), zint(b))
        r = PYMOD(zint(a), zint(b))
        st.assume(z3.And(zint(a) == zint(b) * q + r, z3.Implies(zint(b) > 0, z3.And(r >= 0, r < zint(b))), z3.Implies(zint(b) < 0, z3.And(r <= 0, r > zint(b)))))
        return q if want == "q" else r

    def binop(self, st, op, a, b):
        if isinstance(a, (Arr, AExpr)) or isinstance(b, (Arr, AExpr)):
            return self.array_binop(st, op, a, b)
        if isinstance(op, (ast.BitAnd, ast.BitOr, ast.BitXor)):
            return self.bitop(st, op, a, b)
        if isinstance(op, ast.Mult) and isinstance(a, tuple) and is_scalar(b) and all(is_scalar(e) for e in a):
            return self.list_repeat(st, list(a), b)
        if isinstance(a, str) or isinstance(b, str):
            raise Unsupported("string arithmetic")
        if isinstance(a, tuple) or isinstance(b, tuple):
            raise Unsupported("arithmetic on a true-division result")
        a, b = as_int(a), as_int(b)
        if isinstance(op, ast.Add):
            return a + b
        if isinstance(op, ast.Sub):
            return a - b
        if isinstance(op, ast.Mult):
            return a * b
        if isinstance(op, ast.FloorDiv):
            return self.floordiv(st, a, b, "q")
        if isinstance(op, ast.Mod):
            return self.floordiv(st, a, b, "r")
        if isinstance(op, ast.Div):
            return ("frac", a, b)  # only int(a / b) is modelled (truncation toward zero)
        if isinstance(op, ast.LShift) and isinstance(a, int) and isinstance(b, int):
            return a << b
        if isinstance(op, ast.Pow) and isinstance(b, int) and 0 <= b <= 4:
            r = 1
            for _ in range(b):
                r = r * a
            return r
        raise Unsupported(f"operator {type(op).__name__}")

    MASK_BITS = 3

    def bitop(self, st, op, a, b):
        if is_boolv(a) and is_boolv(b):
            if isinstance(op, ast.BitAnd):
                return b_and(a, b)
            if isinstance(op, ast.BitOr):
                return b_or(a, b)
        a, b = as_int(a), as_int(b)
        if isinstance(a, int) and isinstance(b, int):
            return a & b if isinstance(op, ast.BitAnd) else (a | b if isinstance(op, ast.BitOr) else a ^ b)
        # event masks: values in [0, 8); bit decomposition through Int2BV on 8 bits (inputs are range-constrained by an obligation)
        if not st.spec and self.check_bounds:
            for x in (a, b):
                if not isinstance(x, int):
                    self.oblige(st, "range", "bitop.operand", z3.And(x >= 0, x < 256), tags={"C16"})
        za, zb = z3.Int2BV(zint(a), 8), z3.Int2BV(zint(b), 8)
        r = za & zb if isinstance(op, ast.BitAnd) else (za | zb if isinstance(op, ast.BitOr) else za ^ zb)
        return z3.BV2Int(r, False)

    def array_binop(self, st, op, a, b):
        def ae(x):
            return self.to_aexpr(st, x) if isinstance(x, (Arr, AExpr)) else None

        A, B = ae(a), ae(b)
        nd = max(A.ndim if A else 0, B.ndim if B else 0)

        def bshape():
            out = []
            for k in range(nd):
                cands = []
                for X in (A, B):
                    if X is not None and k >= nd - X.ndim:
                        cands.append(X.shape[k - (nd - X.ndim)])
                pick = None
                for c in cands:
                    if not (isinstance(c, int) and c == 1):
                        pick = c
                        break
                out.append(pick if pick is not None else 1)
            return out

        shape = bshape()

        def fn(ix, A=A, B=B, a=a, b=b, op=op):
            def get(X, x):
                if X is None:
                    return x
                sub = ix[nd - X.ndim:]
                sub = [0 if (isinstance(s, int) and s == 1) else i for i, s in zip(sub, X.shape)]
                return X.fn(sub)

            return self.binop(st, op, get(A, a), get(B, b))

        both_bool = all(X is None or X.dtype == "bool" for X in (A, B)) and all(X is not None or is_boolv(x) for X, x in ((A, a), (B, b)))
        return AExpr(shape, fn, "bool" if both_bool and isinstance(op, (ast.BitAnd, ast.BitOr)) else "i64")

    def compare(self, st, op, a, b):
        if isinstance(op, (ast.Is, ast.IsNot)):
            r = (a is None) if b is None else ((b is None) if a is None else a is b)
            return r if isinstance(op, ast.Is) else (not r)
        if isinstance(a, (Arr, AExpr)) or isinstance(b, (Arr, AExpr)):
            A = self.to_aexpr(st, a) if isinstance(a, (Arr, AExpr)) else None
            B = self.to_aexpr(st, b) if isinstance(b, (Arr, AExpr)) else None
            shape = (A or B).shape

            def fn(ix, A=A, B=B, a=a, b=b, op=op):
                return self.compare(st, op, A.fn(ix) if A else a, B.fn(ix) if B else b)

            return AExpr(shape, fn, "bool")
        if isinstance(op, (ast.Is, ast.IsNot)):
            r = (a is None) if b is None else (a is b)
            if b is None and a is not None and not isinstance(a, (int, bool, str)) and is_sym(a):
                r = False
            return r if isinstance(op, ast.Is) else (not r)
        if isinstance(op, ast.Eq):
            if a is None or b is None:
                return a is b
            return v_eq(a, b)
        if isinstance(op, ast.NotEq):
            if a is None or b is None:
                return a is not b
            return b_not(v_eq(a, b))
        a, b = as_int(a), as_int(b)
        if isinstance(op, ast.Lt):
            return a < b
        if isinstance(op, ast.LtE):
            return a <= b
        if isinstance(op, ast.Gt):
            return a > b
        if isinstance(op, ast.GtE):
            return a >= b
        raise Unsupported(f"comparison {type(op).__name__}")

    def vmax(self, a, b):
        a, b = as_int(a), as_int(b)
        if isinstance(a, int) and isinstance(b, int):
            return max(a, b)
        return z3.If(zint(a) >= zint(b), zint(a), zint(b))

    def vmin(self, a, b):
        a, b = as_int(a), as_int(b)
        if isinstance(a, int) and isinstance(b, int):
            return min(a, b)
        return z3.If(zint(a) <= zint(b), zint(a), zint(b))

    # ------------------------------------------------------------------ reductions
    def reduce_minmax(self, st, arr, kind):
        ae = self.to_aexpr(st, arr)
        if ae.ndim != 1:
            raise Unsupported("np.max/min of a non 1-D array")
        n = ae.shape[0]
        if not st.spec:
            self.oblige(st, "bounds", f"np.{kind}.nonempty", n >= 1 if is_sym(n) else bool(n >= 1), tags={"C16"})
        if isinstance(n, int):
            if n < 1:
                return 0
            acc = ae.fn([0])
            for k in range(1, n):
                acc = self.vmax(acc, ae.fn([k])) if kind == "max" else self.vmin(acc, ae.fn([k]))
            return acc
        m = fresh_int(kind)
        w = fresh_int("w")
        k = z3.Int(fresh_name("k"))
        e = zint(ae.fn([k]))
        bound = (e <= m) if kind == "max" else (e >= m)
        f = z3.And(z3.ForAll([k], z3.Implies(z3.And(k >= 0, k < n), bound)), w >= 0, w < n, zint(ae.fn([w])) == m)
        st.assume(f)
        return m

    def reduce_anyall(self, st, arr, kind):
        ae = self.to_aexpr(st, arr)
        if ae.ndim != 1:
            raise Unsupported("np.any/all of a non 1-D array")
        n = ae.shape[0]
        if isinstance(n, int):
            vals = [truth(ae.fn([k])) for k in range(n)]
            return b_or(*vals) if kind == "any" else b_and(*vals)
        k = z3.Int(fresh_name("k"))
        body = zbool(truth(ae.fn([k])))
        rng = z3.And(k >= 0, k < n)
        return z3.Exists([k], z3.And(rng, body)) if kind == "any" else z3.ForAll([k], z3.Implies(rng, body))

    # ------------------------------------------------------------------ expression dispatch
    def eval(self, node, st):
        m = getattr(self, "e_" + type(node).__name__, None)
        if m is None:
            raise Unsupported(f"expression {type(node).__name__} (line {getattr(node, 'lineno', '?')})")
        if hasattr(node, "lineno") and not st.spec:
            self.line = node.lineno
        return m(node, st)

    def e_Constant(self, node, st):
        return node.value

    def e_Name(self, node, st):
        return self.lookup(node.id, st)

    def e_Tuple(self, node, st):
        return tuple(self.eval(e, st) for e in node.elts)

    def e_List(self, node, st):
        if node.elts:
            return tuple(self.eval(e, st) for e in node.elts)
        lo = ListObj()
        st.heap[lo.id] = (0, z3.K(INT, z3.IntVal(0)))
        return lo

    def e_UnaryOp(self, node, st):
        v = self.eval(node.operand, st)
        if isinstance(node.op, ast.Not):
            return b_not(v)
        if isinstance(node.op, ast.USub):
            return -as_int(v)
        if isinstance(node.op, ast.UAdd):
            return as_int(v)
        raise Unsupported("unary operator")

    def e_BinOp(self, node, st):
        return self.binop(st, node.op, self.eval(node.left, st), self.eval(node.right, st))

    def e_BoolOp(self, node, st):
        vals = []
        n_guards = len(st.guards)
        try:
            for e in node.values:
                v = truth(self.eval(e, st))
                vals.append(v)
                if isinstance(node.op, ast.And):
                    if v is False:
                        break
                    if v is not True:
                        st.guards.append(v)
                else:
                    if v is True:
                        break
                    if v is not False:
                        st.guards.append(b_not(v))
        finally:
            del st.guards[n_guards:]
        return b_and(*vals) if isinstance(node.op, ast.And) else b_or(*vals)

    def e_Compare(self, node, st):
        left = self.eval(node.left, st)
        out = []
        for op, c in zip(node.ops, node.comparators):
            right = self.eval(c, st)
            out.append(self.compare(st, op, left, right))
            left = right
        if len(out) == 1:
            return out[0]
        return b_and(*out)

    def e_IfExp(self, node, st):
        c = self.eval(node.test, st)
        if isinstance(c, Opaque):
            c = fresh_bool("opaque")  # e.g. NUMBA_DISABLE_JIT: both dispatch branches are considered
        c = truth(c)
        if c is True:
            return self.eval(node.body, st)
        if c is False:
            return self.eval(node.orelse, st)
        st.guards.append(c)
        try:
            a = self.eval(node.body, st)
        finally:
            st.guards.pop()
        st.guards.append(b_not(c))
        try:
            b = self.eval(node.orelse, st)
        finally:
            st.guards.pop()
        if is_scalar(a) and is_scalar(b):
            return v_ite(c, a, b)
        if isinstance(a, (Opaque, FuncRef)) or isinstance(b, (Opaque, FuncRef)):
            return Opaque("ifexp")
        raise Unsupported("conditional expression over non-scalars")

    def e_Slice(self, node, st):
        if node.step is not None:
            raise Unsupported("slice step")
        return SliceV(self.eval(node.lower, st) if node.lower else None, self.eval(node.upper, st) if node.upper else None)

    def e_Subscript(self, node, st):
        base = self.eval(node.value, st)
        idx = self.eval(node.slice, st)
        idxs = list(idx) if isinstance(idx, tuple) else [idx]
        what = ast.unparse(node.value) if not st.spec else "spec"
        if isinstance(base, SpecArr):
            if len(idxs) != base.ndim:
                base = self.to_aexpr(st, base)
            else:
                return z3.Select(base.term, *[zint(as_int(i)) for i in idxs])
        if isinstance(base, (Arr, AExpr)):
            if len(idxs) == 1 and isinstance(idxs[0], AExpr) and idxs[0].dtype == "bool":
                return self.mask_filter(st, base, idxs[0])
            return self.index(st, base, idxs, what)
        if isinstance(base, ListObj):
            n, t = st.heap[base.id]
            i = self.norm_index(st, idxs[0], n, what)
            return z3.Select(t, zint(i))
        if isinstance(base, tuple):
            i = idxs[0]
            if isinstance(i, int):
                return base[i]
            if isinstance(i, SliceV):
                return base[i.lo:i.hi]
            # symbolic index into a concrete tuple of scalars
            i = as_int(i)
            if self.check_bounds and not st.spec:
                self.oblige(st, "bounds", what, z3.And(i >= 0, i < len(base)), tags={"C16"})
            acc = base[-1]
            for k in range(len(base) - 2, -1, -1):
                acc = v_ite(i == k, base[k], acc)
            return acc
        if isinstance(base, Opaque):
            return Opaque(f"{base.tag}[]")
        raise Unsupported(f"subscript of {type(base).__name__} (line {self.line})")

    def mask_filter(self, st, base, mask):
        """a[mask] for 1-D a: a fresh array whose elements are exactly the elements of `a` selected by the mask (order not modelled)"""
        src = self.to_aexpr(st, base)
        if src.ndim == 2 and mask.ndim == 1:
            return self.row_filter(st, src, mask)
        if src.ndim != 1 or mask.ndim != 1:
            raise Unsupported("boolean mask filtering of a non 1-D array")
        n = src.shape[0]
        if isinstance(n, int):
            raise Unsupported("mask filter in unroll mode")
        obj = ArrObj("filtered", src.dtype, [fresh_int("nf")])
        term = obj.fresh_term()
        st.heap[obj.id] = term
        nf = obj.shape[0]
        j, i = z3.Int(fresh_name("j")), z3.Int(fresh_name("i"))
        st.pc.append(z3.And(nf >= 0, nf <= n))
        st.pc.append(z3.ForAll([j], z3.Implies(z3.And(j >= 0, j < nf), z3.Exists([i], z3.And(i >= 0, i < n, zbool(truth(mask.fn([i]))), z3.Select(term, j) == zint(src.fn([i])))))))
        st.pc.append(z3.ForAll([i], z3.Implies(z3.And(i >= 0, i < n, zbool(truth(mask.fn([i])))), z3.Exists([j], z3.And(j >= 0, j < nf, z3.Select(term, j) == zint(src.fn([i])))))))
        return Arr(obj)

    def row_filter(self, st, src, mask):
        """A[mask] for 2-D A and a 1-D boolean mask over its rows: a fresh array whose rows are exactly the selected rows, in order.
        f maps a result row to its source row (strictly increasing), g maps a selected source row to its result row (A-NUMPY)."""
        n, cols = src.shape
        if self.check_bounds and not st.spec:
            self.oblige(st, "bounds", "rowmask.length", v_eq(mask.shape[0], n), tags={"C16"})
        obj = ArrObj("filtered", src.dtype, [fresh_int("nf"), cols])
        term = obj.fresh_term()
        st.heap[obj.id] = term
        nf = obj.shape[0]
        f = z3.Function(fresh_name("rowsrc"), INT, INT)
        g = z3.Function(fresh_name("rowdst"), INT, INT)
        j, i, c = z3.Int(fresh_name("j")), z3.Int(fresh_name("i")), z3.Int(fresh_name("c"))
        st.pc.append(z3.And(nf >= 0, nf <= zint(n)))
        st.pc.append(z3.ForAll([j], z3.Implies(z3.And(j >= 0, j < nf), z3.And(f(j) >= 0, f(j) < zint(n), zbool(truth(mask.fn([f(j)]))), g(f(j)) == j)), patterns=[f(j)]))
        st.pc.append(z3.ForAll([j, c], z3.Implies(z3.And(j >= 0, j < nf, c >= 0, c < zint(cols)), z3.Select(term, j, c) == zint(src.fn([f(j), c]))), patterns=[z3.Select(term, j, c)]))
        st.pc.append(z3.ForAll([i], z3.Implies(z3.And(i >= 0, i < zint(n), zbool(truth(mask.fn([i])))), z3.And(g(i) >= 0, g(i) < nf, f(g(i)) == i)), patterns=[g(i)]))
        st.env["__rowmap__"] = (f, g)
        return Arr(obj)

    def e_Attribute(self, node, st):
        v = self.eval(node.value, st)
        if isinstance(v, Opaque):
            if v.tag == "sys" and node.attr == "maxsize":
                return 2 ** 63 - 1
            return Opaque(f"{v.tag}.{node.attr}")
        if isinstance(v, dict):
            if node.attr in v:
                return v[node.attr]
            raise Unsupported(f"unknown attribute {node.attr}")
        if isinstance(v, (Arr, AExpr)) and node.attr == "shape":
            return tuple(v.shape)
        if isinstance(v, (Arr, AExpr, ListObj)):
            return ("method", v, node.attr)
        raise Unsupported(f"attribute {node.attr} of {type(v).__name__}")

    def e_NamedExpr(self, node, st):
        v = self.eval(node.value, st)
        st.env[node.target.id] = v
        return v

    def e_Lambda(self, node, st):
        if st.spec:
            return Lam([a.arg for a in node.args.args], node.body, dict(st.env))
        return Opaque("lambda")

    def e_JoinedStr(self, node, st):
        return "<fstring>"

    def e_Call(self, node, st):
        return self.call(node, st)

    def call(self, node, st):  # provided by Executor
        raise NotImplementedError
