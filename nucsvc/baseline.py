"""Writes baseline/obligations.json: every obligation key discharged on the current (pinned + fix commits) tree. Run only on the unchanged tree."""
import json
import os

from .check import *  # noqa


def main():
    repo = Repo()
    reg = Registry().load_dir(CONTRACT_DIR)
    cache = Cache(hashlib.sha256((tree_sha(repo.root) + engine_sha()).encode()).hexdigest())
    fns = sorted(q for q in reg.contracts if q.split("#")[0] in repo.functions)
    res = run_tasks(task_verify, [(q, None, 60000) for q in fns], cache, [f"verify:{q}:inv:60000" for q in fns])
    out = {}
    for q, r in zip(fns, res):
        for o in r["obligations"]:
            k = base_key(o)
            if o["status"] != "proved":
                out[k] = o["status"]
            else:
                out.setdefault(k, "proved")
    os.makedirs(os.path.dirname(BASELINE), exist_ok=True)
    json.dump(dict(tree_sha256=tree_sha(repo.root), obligations=out), open(BASELINE, "w"), indent=0, sort_keys=True)
    print("baseline:", len(out), "obligation keys,", sum(v != "proved" for v in out.values()), "not proved")
    return 0
