"""Verdict logic and evidence for one property."""
import json
import os
import subprocess
import sys
import time

from .check import *  # noqa
from . import plan as PLAN

# bounds / range / div obligations are assumed after they are checked (no cascades): when one fails, everything discharged after it in that function
# rests on a false assumption, so they support every property the function serves
SUPPORT_KINDS = ("inv-init", "inv-step", "pre", "assert", "bounds", "range", "div")


def load_known():
    try:
        k = json.load(open(KNOWN))
    except Exception:
        return dict(fixed=[], open=[])
    return k


def load_baseline():
    try:
        return json.load(open(BASELINE)).get("obligations", {})
    except Exception:
        return {}


def model_key(m):
    return json.dumps(m.get("params"), sort_keys=True)


def check_property(pid, tier="quick", seed=0, write_baseline=False):
    t_start = time.time()
    repo = Repo()
    reg = Registry().load_dir(CONTRACT_DIR)
    cache = Cache(hashlib.sha256((tree_sha(repo.root) + engine_sha()).encode()).hexdigest())
    timeout_ms = 60000 if tier == "quick" else 180000
    if tier == "thorough":
        os.environ.setdefault("NUCSVC_UNROLL_SECONDS", "14400")  # e.g. alldifferent at arity 3 needs about 70 minutes on one core
        os.environ.setdefault("NUCSVC_HARD_CAP_S", "21600")  # the hard cap of a task batch must stay above the longest legitimate task
    lines = []
    verdict = dict(violations=[], undecided=[], errors=[], known=[], degraded=[])
    fns = sorted(q for q, c in reg.contracts.items() if pid in c.props)
    missing = [q for q in fns if q.split("#")[0] not in repo.functions]
    for q in missing:
        verdict["undecided"].append(f"binding failure: {q} not found in the source tree")
    fns = [q for q in fns if q.split("#")[0] in repo.functions]
    def tmo(q):
        return max(timeout_ms, reg.contracts[q].extra.get("timeout_ms", 0))

    res = run_tasks(task_verify, [(q, None, tmo(q)) for q in fns], cache, [f"verify:{q}:inv:{tmo(q)}" for q in fns])
    baseline = load_baseline()
    total = discharged = 0
    by_kind = {}
    solver_time = 0.0
    functions = []
    samples = []
    unroll_needed = []
    per_fn = {}
    for q, r in zip(fns, res):
        con = reg.contracts[q]
        obs = r["obligations"]
        if r.get("crash"):
            verdict["errors"].append(f"{q}: {r['error']}")
        rel = [o for o in obs if pid in ob_tags(o, con)]
        sup = [o for o in obs if o["kind"] in SUPPORT_KINDS and pid not in ob_tags(o, con)]
        bad_rel = [o for o in rel if o["status"] != "proved"]
        bad_sup = [o for o in sup if o["status"] != "proved"]
        mode = "invariant" if not con.unroll_only else "unroll-only"
        per_fn[q] = dict(r=r, rel=rel, sup=sup, bad_rel=bad_rel, bad_sup=bad_sup, unroll=[], replays=[])
        if r["error"] or bad_rel or bad_sup or con.unroll_only:
            unroll_needed.append(q)
        if not con.unroll_only and not r["error"]:
            for o in rel + sup:
                total += 1
                discharged += o["status"] == "proved"
                by_kind[o["kind"]] = by_kind.get(o["kind"], 0) + 1
        solver_time += r.get("solver_time", 0.0)
        functions.append(dict(function=q, file=r.get("file"), lines=r.get("lines"), sha256=r.get("sha256"), mode=mode, paths=r["paths"],
                              obligations=len(rel) + len(sup), relevant=len(rel), error=r["error"], used_callee_contracts=r["used_contracts"]))
        for o in rel[:1]:
            samples.append(dict(obligation=o["id"], kind=o["kind"], label=o["label"], status=o["status"], function=q))
    # ------------------------------------------------------------------ unroll mode: counterexamples / arity-bounded proofs
    tasks, names, owners = [], [], []
    for q in unroll_needed:
        con = reg.contracts[q]
        for ar in ((con.extra.get("arities_thorough") if tier == "thorough" and con.extra.get("arities_thorough") else con.arities) or []):
            tasks.append((q, ar, timeout_ms))
            names.append(f"verify:{q}:unroll:{json.dumps(ar, sort_keys=True)}:{timeout_ms}")
            owners.append(q)
    ures = run_tasks(task_verify, tasks, cache, names) if tasks else []
    replay_tasks, replay_owner = [], []
    for q, (tq, ar, _), r in zip(owners, tasks, ures):
        per_fn[q]["unroll"].append(r)
        con = reg.contracts[q]
        seen = set()
        for o in r["obligations"]:
            if o["status"] == "failed" and o.get("model") and pid in ob_tags(o, con):
                k = model_key(o["model"])
                if k in seen or len(seen) >= 4:
                    continue
                seen.add(k)
                replay_tasks.append((q, o["model"]))
                replay_owner.append((q, o, ar))
    rres = run_tasks(task_replay, replay_tasks, cache, [f"replay:{q}:{json.dumps(m, sort_keys=True)}" for q, m in replay_tasks]) if replay_tasks else []
    os.makedirs(os.path.join(REPLAY_DIR, pid), exist_ok=True)
    arity_bounded = []
    for q in unroll_needed:
        con = reg.contracts[q]
        info = per_fn[q]
        confirmed = []
        for (oq, o, ar), rr in zip(replay_owner, rres):
            if oq != q:
                continue
            if rr.get("out_of_contract"):
                verdict["errors"].append(f"{q}: counter-model violates requires clause {rr['out_of_contract']} (encoding error)")
                continue
            hit = bool(rr.get("violated"))
            info["replays"].append(dict(obligation=o["id"], arity=ar, violated=rr.get("violated"), native=rr.get("native"), inputs=rr.get("inputs")))
            if hit:
                confirmed.append((o, ar, rr))
            elif o["kind"] in ("post",):
                verdict["errors"].append(f"{q}: model of {o['id']} does not replay on the real function (encoding error?)")
        u_bad_rel = [(o, r["arity"]) for r in info["unroll"] for o in r["obligations"] if o["status"] != "proved" and pid in ob_tags(o, con)]
        u_err = [r["error"] for r in info["unroll"] if r["error"]]
        u_incomplete = [x for r in info["unroll"] for x in r["incomplete"]]
        if confirmed:
            o, ar, rr = confirmed[0]
            path = os.path.join(REPLAY_DIR, pid, o["id"].replace("/", "__") + ".json")
            json.dump(dict(property=pid, obligation=o["id"], function=q, arity=ar, inputs=rr["inputs"], native=rr["native"], violated_clauses=rr["violated"],
                           verifier_output=o.get("detail"), replay_cmd=f"python3-vt bin/check --replay {os.path.relpath(path, ROOT)}"), open(path, "w"), indent=1)
            verdict["violations"].append(dict(function=q, obligation=o["id"], replay=path, found=True, clauses=rr["violated"]))
            continue
        bad_inv = info["bad_rel"] if not info["r"]["error"] else []
        if u_bad_rel and not confirmed:
            # failing in unroll mode (paths from entry, no havoc) but no replayable model (bounds/range/unknown)
            o, ar = u_bad_rel[0]
            path = os.path.join(REPLAY_DIR, pid, o["id"].replace("/", "__") + ".json")
            json.dump(dict(property=pid, obligation=o["id"], function=q, arity=ar, status=o["status"], model=o.get("model"), verifier_output=o.get("detail"),
                           note="obligation fails on a path from function entry at this arity; no violated postcondition was reproduced natively"), open(path, "w"), indent=1)
            if o["status"] == "failed":
                verdict["violations"].append(dict(function=q, obligation=o["id"], replay=path, found=False))
            else:
                verdict["undecided"].append(f"{q}: {o['id']} {o['status']} in unroll mode")
            continue
        if bad_inv:
            o = bad_inv[0]
            if baseline.get(base_key(o)) == "proved":
                path = os.path.join(REPLAY_DIR, pid, o["id"].replace("/", "__") + ".json")
                json.dump(dict(property=pid, obligation=o["id"], function=q, status=o["status"], verifier_output=o.get("detail"), arities_searched=con.arities,
                               note="obligation discharged on the baseline tree no longer discharges; unroll-mode search at the listed arities found no failing input"), open(path, "w"), indent=1)
                verdict["violations"].append(dict(function=q, obligation=o["id"], replay=path, found=False))
            else:
                verdict["undecided"].append(f"{q}: {o['id']} {o['status']} (not in baseline)")
            continue
        # only supporting obligations failed, or the function is outside invariant mode: arity-bounded proof of the relevant clauses
        if u_err or u_incomplete or not info["unroll"]:
            verdict["undecided"].append(f"{q}: invariant-mode proof unavailable ({info['r']['error'] or [o['id'] for o in info['bad_sup']][:3]}) and unroll mode incomplete ({u_err or u_incomplete or 'no arities'})")
            continue
        n_u = sum(1 for r in info["unroll"] for o in r["obligations"] if pid in ob_tags(o, con))
        arity_bounded.append(dict(function=q, arities=con.arities, obligations=n_u, reason=info["r"]["error"] or ("unroll-only contract" if con.unroll_only else "supporting invariant obligations not discharged: " + ", ".join(o["id"] for o in info["bad_sup"][:3]))))
        if not con.unroll_only:
            verdict["degraded"].append(q)
    # ------------------------------------------------------------------ bounded stand-ins
    bounded = []
    for suite in PLAN.BOUNDED.get(pid, []):
        b = run_bounded(suite, pid, tier, seed, repo.root, cache)
        bounded.append(b)
        for v in b.get("violations", []):
            path = os.path.join(REPLAY_DIR, pid, f"bounded__{suite.replace(':', '_')}__{len(verdict['violations'])}.json")
            json.dump(dict(property=pid, suite=suite, **v), open(path, "w"), indent=1)
            verdict["violations"].append(dict(function=suite, obligation=f"bounded:{suite}:{v.get('clause')}", replay=path, found=True, witness=v))
        if b.get("error"):
            verdict["errors"].append(f"bounded {suite}: {b['error']}")
    # ------------------------------------------------------------------ extra (spec lemmas, model lemmas, ...) hooks
    extra = PLAN.run_extra(pid, tier, seed, repo, reg, cache) if hasattr(PLAN, "run_extra") else None
    if extra:
        total += extra.get("obligations", 0)
        discharged += extra.get("discharged", 0)
        verdict["violations"].extend(extra.get("violations", []))
        verdict["undecided"].extend(extra.get("undecided", []))
        verdict["errors"].extend(extra.get("errors", []))
        samples.extend(extra.get("samples", []))
    # ------------------------------------------------------------------ known findings
    known = load_known()
    final_viol = []
    for v in verdict["violations"]:
        kf = match_known(known, pid, v)
        if kf:
            verdict["known"].append(kf)
        else:
            final_viol.append(v)
    for kf in known.get("open", []):
        if kf.get("property") == pid and kf.get("always_report"):
            verdict["known"].append(kf)
    # ------------------------------------------------------------------ vacuity
    n_bounded_eval = sum(b.get("evaluations", 0) for b in bounded)
    if total == 0 and not arity_bounded and n_bounded_eval == 0:
        verdict["errors"].append("no obligation generated for this property (vacuous check)")
    wall = time.time() - t_start
    level = PLAN.LEVEL.get(pid, "other")
    all_proved = (total == discharged) and not arity_bounded and not bounded
    ev = dict(
        property_id=pid, tier=tier, seed=seed, level=level, wall_s=round(wall, 2), violations=len(final_viol),
        coverage=dict(
            obligations=total, discharged=discharged, by_kind=by_kind, checker_cmd=f"python3-vt bin/check {pid} --tier {tier}",
            backend="z3 %s (python API), per-obligation timeout %d ms" % (__import__("z3").get_version_string(), timeout_ms),
            solver_time_s=round(solver_time, 2),
            trusted_base=PLAN.TRUSTED_BASE, functions_under_contract=functions, arity_bounded=arity_bounded, bounded=bounded,
            evaluations=max(1, total + n_bounded_eval + sum(a["obligations"] for a in arity_bounded)),
            distinct_nontrivial=max(2, len({s["obligation"] for s in samples}) + sum(b.get("distinct_nontrivial", 0) for b in bounded)) if (total or n_bounded_eval) else 0,
            rule="deductive: one case per generated obligation (kind.label@line of the real source); bounded: see each suite's rule",
            samples=samples[:12] or [dict(note="none")],
            explanation=PLAN.EXPLAIN.get(pid, ""),
            undecided=verdict["undecided"], degraded_to_arity_bounded=verdict["degraded"], known_findings_reproduced=[k.get("id") for k in verdict["known"]],
            extra=extra.get("evidence") if extra else None, tree_sha256=tree_sha(repo.root), exhaustive=False,
        ),
        assumptions=PLAN.ASSUMPTIONS + reg.assumptions,
    )
    if write_baseline:
        return res
    os.makedirs(EVIDENCE_DIR, exist_ok=True)
    json.dump(ev, open(os.path.join(EVIDENCE_DIR, f"{pid}.json"), "w"), indent=1, default=str)
    seen_kf = set()
    for k in verdict["known"]:
        if k.get("id") in seen_kf:
            continue
        seen_kf.add(k.get("id"))
        n_k = sum(1 for x in verdict["known"] if x.get("id") == k.get("id"))
        print(f"KNOWN-FINDING: property={pid} {k.get('what_fails', k.get('id'))} [{n_k} witnesses in the listed input class]")
    for e in verdict["errors"]:
        print(f"CHECKER-ERROR property={pid} {e}")
    for u in verdict["undecided"]:
        print(f"UNDECIDED property={pid} {u}")
    for d in arity_bounded:
        print(f"NOTE property={pid} {d['function']} decided at arities {d['arities']} only ({d['reason']})")
    for v in final_viol:
        rp = os.path.relpath(v["replay"], ROOT)
        print(f"VIOLATION property={pid} replay={rp}" + ("" if v.get("found") else " no-failing-input-found"))
    print(f"{pid}: {discharged}/{total} obligations discharged over {len(fns)} functions, {len(arity_bounded)} arity-bounded, {len(bounded)} bounded suites, "
          f"{len(final_viol)} violations, {len(verdict['undecided'])} undecided, {wall:.1f}s")
    if final_viol:
        return 1
    if verdict["errors"]:
        return 3
    if verdict["undecided"]:
        return 2
    return 0


def match_known(known, pid, v):
    for kf in known.get("open", []):
        if kf.get("property") != pid:
            continue
        pat = kf.get("obligation_pattern")
        if pat and pat in v.get("obligation", ""):
            cls = kf.get("input_class")
            if not cls:
                continue  # never suppress by id alone
            try:
                w = v.get("witness") or json.load(open(v["replay"]))
                w = dict(w)
                if eval(cls, {"__builtins__": {"all": all, "any": any, "len": len, "min": min, "max": max, "range": range, "abs": abs}}, {"w": w}):
                    return kf
            except Exception:
                continue
    return None


def run_bounded(suite, pid, tier, seed, repo_root, cache):
    name = f"bounded:{suite}:{pid}:{tier}:{seed}"
    r = None if os.environ.get("VERIF_NOCACHE") else cache.get(name)
    if r is not None:
        return r
    env = dict(os.environ, NUMBA_DISABLE_JIT="1", PYTHONDONTWRITEBYTECODE="1", NUCS_REPO=repo_root)
    t0 = time.time()
    try:
        p = subprocess.run([os.environ.get("NUCS_PY", "/venv/bin/python"), os.path.join(ROOT, "harness", "bounded.py"), suite, pid, tier, str(seed)],
                           capture_output=True, text=True, timeout=3000, env=env)
        if p.returncode != 0:
            r = dict(suite=suite, error=(p.stderr or p.stdout)[-1500:], evaluations=0)
        else:
            r = json.loads(p.stdout.strip().splitlines()[-1])
    except subprocess.TimeoutExpired:
        r = dict(suite=suite, error="timeout", evaluations=0)
    r["wall_s"] = round(time.time() - t0, 2)
    if not r.get("error"):
        cache.put(name, r)
    return r
