"""Generic propagator contract (DESIGN 3.2), instantiated per compute_domains_X."""

P1 = ("P1.contraction",
      "implies(result != PROP_INCONSISTENCY, forall(k, 0, n, old(domains)[k, MIN] <= domains[k, MIN] and domains[k, MIN] <= domains[k, MAX] and domains[k, MAX] <= old(domains)[k, MAX]))",
      ("C05", "C08"))


def propagator(REG, qualname, rel, n_min=1, params="i32[m]", requires=(), entail=True, exact=None, loops=None, hints=(), extra_ensures=(),
               p3=True, ghost=None, arities=None, **kw):
    """rel: contract-language expression over the tuple `T` (an int array of length n) and `parameters`."""
    def R(t):
        return f"({rel.replace('@T', t)})"

    ens = [
        ("status", "result == PROP_INCONSISTENCY or result == PROP_CONSISTENCY" + (" or result == PROP_ENTAILMENT" if entail else ""), ("C05",)),
        P1,
        ("P2.soundness", f"implies(inbox(t, old(domains), n) and {R('t')}, result != PROP_INCONSISTENCY and inbox(t, domains, n))", ("C05",)),
        ("P4.entailment", f"implies(result == PROP_ENTAILMENT and inbox(u, domains, n), {R('u')})", ("C07",)),
    ]
    if p3:
        ens.append(("P3.ground", f"implies(result != PROP_INCONSISTENCY and forall(k, 0, n, domains[k, MIN] == domains[k, MAX]), {R('domains[:, MIN]')})", ("C06",)))
    for lbl, clause in (kw.pop("p5", None) or []):
        # exactness by explicit witness tuples: `@R(W)` stands for the relation on the tuple W
        import re as _re
        c2 = _re.sub(r"@R\((\w+)\)", lambda m_: R(m_.group(1)), clause)
        ens.append((lbl, c2, ("C14",)))
    ens.extend(extra_ensures)
    g = {"t": "int[n]", "u": "int[n]"}
    g.update(ghost or {})
    return REG.contract(
        qualname,
        types={"domains": "i32[n,2]", "parameters": params},
        requires=[f"n >= {n_min}", "forall(k, 0, n, domains[k, MIN] <= domains[k, MAX])"] + list(requires),
        ensures=ens,
        modifies=["domains"] + list(kw.pop("ghost_modifies", [])),
        ghost=g,
        loops=loops or {},
        hints=list(hints),
        arities=arities or [{"n": a, "m": 0} for a in range(max(n_min, 1), max(n_min, 1) + 3)],
        props=kw.pop("props", ["C05", "C06", "C07", "C14", "C16", "C01", "C08"]),
        **kw,
    )
