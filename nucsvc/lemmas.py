"""Lemma library over recursive sums. Each lemma is proved once, generically (uninterpreted term functions), by
induction (base/step obligations discharged by z3); instances are then available to contracts as conditional facts."""
import z3

from .values import *  # noqa


def _sum_terms(ev, node, st, n_terms):
    """lemma_x(k, lo, hi, term1, term2, ...) -> lo, hi, [(F, term_fn)]"""
    a = node.args
    var = a[0].id
    lo = as_int(ev.eval(a[1], st))
    hi = as_int(ev.eval(a[2], st))
    out = []
    for j in range(n_terms):
        def term(k, j=j):
            s = st.fork()
            s.env[var] = k
            ev._mark_bound(s, var)
            v = ev.eval(a[3 + j], s)
            return as_int(v) if not is_boolv(v) else v_ite(v, 1, 0)

        out.append((ev.sum_function(lo, term), term))
    return lo, hi, out


def instantiate(ev, name, node, st):
    if name == "lemma_sum_le":
        # termwise f <= g on [lo,hi)  ==>  S_f(hi) <= S_g(hi)  and the gap dominates every single term's gap
        lo, hi, ((F, f), (G, g)) = _sum_terms(ev, node, st, 2)
        k = z3.Int(fresh_name("k"))
        j = z3.Int(fresh_name("j"))
        hyp = z3.ForAll([k], z3.Implies(z3.And(k >= lo, k < hi), zint(f(k)) <= zint(g(k))))
        concl = z3.And(F(zint(hi)) <= G(zint(hi)),
                       z3.ForAll([j], z3.Implies(z3.And(j >= lo, j < hi), G(zint(hi)) - F(zint(hi)) >= zint(g(j)) - zint(f(j)))))
        return z3.Implies(z3.And(zint(hi) >= zint(lo), hyp), concl)
    if name == "lemma_sum_bounds":
        # terms in [a,b] on [lo,hi): (hi-lo)*a <= S(hi) <= (hi-lo)*b ; with constant a, b
        lo, hi, ((F, f),) = _sum_terms(ev, node, st, 1)
        a = as_int(ev.eval(node.args[4], st))
        b = as_int(ev.eval(node.args[5], st))
        k = z3.Int(fresh_name("k"))
        hyp = z3.ForAll([k], z3.Implies(z3.And(k >= lo, k < hi), z3.And(zint(f(k)) >= a, zint(f(k)) <= b)))
        return z3.Implies(z3.And(zint(hi) >= zint(lo), hyp), z3.And(F(zint(hi)) >= (zint(hi) - zint(lo)) * a, F(zint(hi)) <= (zint(hi) - zint(lo)) * b))
    if name == "lemma_sum_split":
        # S(hi) = S(mid) + (sum from mid) is expressed as monotonicity for non-negative terms: lo<=mid<=hi ==> S(mid) <= S(hi)
        lo, hi, ((F, f),) = _sum_terms(ev, node, st, 1)
        mid = as_int(ev.eval(node.args[4], st))
        k = z3.Int(fresh_name("k"))
        hyp = z3.ForAll([k], z3.Implies(z3.And(k >= lo, k < hi), zint(f(k)) >= 0))
        return z3.Implies(z3.And(zint(lo) <= zint(mid), zint(mid) <= zint(hi), hyp), F(zint(mid)) <= F(zint(hi)))
    if name == "lemma_sum_unfold":
        # S(h+1) = S(h) + f(h) for a given h >= lo  (plain instance of the defining axiom)
        lo, hi, ((F, f),) = _sum_terms(ev, node, st, 1)
        return z3.Implies(zint(hi) >= zint(lo), F(zint(hi) + 1) == F(zint(hi)) + zint(f(hi)))
    if name == "lemma_sum_diff_one":
        # f == g on [lo,hi) except possibly at k0 in [lo,hi)  ==>  S_g(hi) - S_f(hi) == g(k0) - f(k0)
        lo, hi, ((F, f), (G, g)) = _sum_terms(ev, node, st, 2)
        k0 = as_int(ev.eval(node.args[5], st))
        k = z3.Int(fresh_name("k"))
        hyp = z3.And(zint(lo) <= zint(k0), zint(k0) < zint(hi),
                     z3.ForAll([k], z3.Implies(z3.And(k >= lo, k < hi, k != zint(k0)), zint(f(k)) == zint(g(k)))))
        return z3.Implies(hyp, G(zint(hi)) - F(zint(hi)) == zint(g(k0)) - zint(f(k0)))
    if name == "lemma_sum_incr":
        # terms in [0,1]: lo <= mid <= hi ==> 0 <= S(hi) - S(mid) <= hi - mid
        lo, hi, ((F, f),) = _sum_terms(ev, node, st, 1)
        mid = as_int(ev.eval(node.args[4], st))
        k = z3.Int(fresh_name("k"))
        hyp = z3.And(zint(lo) <= zint(mid), zint(mid) <= zint(hi), z3.ForAll([k], z3.Implies(z3.And(k >= lo, k < hi), z3.And(zint(f(k)) >= 0, zint(f(k)) <= 1))))
        return z3.Implies(hyp, z3.And(F(zint(hi)) - F(zint(mid)) >= 0, F(zint(hi)) - F(zint(mid)) <= zint(hi) - zint(mid)))
    if name == "lemma_sum_zero":
        # non-negative terms: S(hi) >= 0, and S(hi) == 0 ==> every term is 0
        lo, hi, ((F, f),) = _sum_terms(ev, node, st, 1)
        k = z3.Int(fresh_name("k"))
        j = z3.Int(fresh_name("j"))
        hyp = z3.And(zint(hi) >= zint(lo), z3.ForAll([k], z3.Implies(z3.And(k >= lo, k < hi), zint(f(k)) >= 0)))
        return z3.Implies(hyp, z3.And(F(zint(hi)) >= 0, z3.Implies(F(zint(hi)) == 0, z3.ForAll([j], z3.Implies(z3.And(j >= lo, j < hi), zint(f(j)) == 0)))))
    raise VerifError(f"unknown lemma {name}")


def prove_library(prover):
    """generic inductive proofs of the lemma schemas; returns list of (name, status, seconds)"""
    out = []
    f = z3.Function("lf", INT, INT)
    g = z3.Function("lg", INT, INT)
    F = z3.Function("lF", INT, INT)
    G = z3.Function("lG", INT, INT)
    lo, h, k, j = z3.Ints("llo lh lk lj")
    defs = [F(lo) == 0, G(lo) == 0, F(h + 1) == F(h) + f(h), G(h + 1) == G(h) + g(h)]

    def P(x):
        hyp = z3.ForAll([k], z3.Implies(z3.And(k >= lo, k < x), f(k) <= g(k)))
        concl = z3.And(F(x) <= G(x), z3.ForAll([j], z3.Implies(z3.And(j >= lo, j < x), G(x) - F(x) >= g(j) - f(j))))
        return z3.Implies(hyp, concl)

    out.append(("lemma_sum_le.base",) + prover.check_valid(defs, P(lo))[::2])
    out.append(("lemma_sum_le.step",) + prover.check_valid(defs + [h >= lo, P(h)], P(h + 1))[::2])
    a, b = z3.Ints("la lb")

    def B(x):
        hyp = z3.ForAll([k], z3.Implies(z3.And(k >= lo, k < x), z3.And(f(k) >= a, f(k) <= b)))
        return z3.Implies(hyp, z3.And(F(x) >= (x - lo) * a, F(x) <= (x - lo) * b))

    out.append(("lemma_sum_bounds.base",) + prover.check_valid(defs, B(lo))[::2])
    out.append(("lemma_sum_bounds.step",) + prover.check_valid(defs + [h >= lo, B(h)], B(h + 1))[::2])
    mid = z3.Int("lmid")

    def M(x):
        hyp = z3.ForAll([k], z3.Implies(z3.And(k >= lo, k < x), f(k) >= 0))
        return z3.Implies(z3.And(lo <= mid, mid <= x, hyp), F(mid) <= F(x))

    out.append(("lemma_sum_split.base",) + prover.check_valid(defs, M(mid))[::2])
    out.append(("lemma_sum_split.step",) + prover.check_valid(defs + [h >= mid, mid >= lo, M(h)], M(h + 1))[::2])
    def I(x):
        hyp = z3.And(lo <= mid, mid <= x, z3.ForAll([k], z3.Implies(z3.And(k >= lo, k < x), z3.And(f(k) >= 0, f(k) <= 1))))
        return z3.Implies(hyp, z3.And(F(x) - F(mid) >= 0, F(x) - F(mid) <= x - mid))

    out.append(("lemma_sum_incr.base",) + prover.check_valid(defs, I(mid))[::2])
    out.append(("lemma_sum_incr.step",) + prover.check_valid(defs + [h >= mid, mid >= lo, I(h)], I(h + 1))[::2])
    k0 = z3.Int("lk0")

    def D1(x):
        hyp = z3.And(lo <= k0, z3.ForAll([k], z3.Implies(z3.And(k >= lo, k < x, k != k0), f(k) == g(k))))
        return z3.Implies(hyp, G(x) - F(x) == z3.If(k0 < x, g(k0) - f(k0), 0))

    out.append(("lemma_sum_diff_one.base",) + prover.check_valid(defs, D1(lo))[::2])
    out.append(("lemma_sum_diff_one.step",) + prover.check_valid(defs + [h >= lo, D1(h)], D1(h + 1))[::2])

    def Z(x):
        hyp = z3.ForAll([k], z3.Implies(z3.And(k >= lo, k < x), f(k) >= 0))
        return z3.Implies(hyp, z3.And(F(x) >= 0, z3.Implies(F(x) == 0, z3.ForAll([j], z3.Implies(z3.And(j >= lo, j < x), f(j) == 0)))))

    out.append(("lemma_sum_zero.base",) + prover.check_valid(defs, Z(lo))[::2])
    out.append(("lemma_sum_zero.step",) + prover.check_valid(defs + [h >= lo, Z(h)], Z(h + 1))[::2])
    return out
