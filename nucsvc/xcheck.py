"""Translation check of the encoding: the executor, run on a concrete input, must compute what CPython computes."""
import json, sys
import numpy as np
from .run import load
from .state import Prover
from .verifier import Verifier
from . import cex


def crosscheck(repo, reg, fi, con, inputs, arity):
    v = Verifier(repo, Prover(timeout_ms=10000), reg, fi)
    v.check_bounds = True
    v.verify(arity, pin=inputs)
    nat = cex.run_native(repo.root, [dict(func=fi.qualname, args=cex.native_args(fi, inputs), timeout=5.0)])[0]
    sym = v.concrete_runs
    problems = []
    if nat["error"] or nat["timeout"]:
        return dict(ok=None, native=nat, symbolic=sym)
    if len(sym) != 1:
        problems.append(f"{len(sym)} feasible symbolic paths for one concrete input")
    for run in sym:
        if run["result"] != nat["result"] and not isinstance(nat["result"], dict):
            problems.append(f"result {run['result']} != native {nat['result']}")
        for k, a in enumerate(fi.node.args.args):
            if a.arg in run["arrays"]:
                flat = [int(x) if not isinstance(x, bool) else x for x in np.array(nat["args"][k]["array"]).reshape(-1).tolist()]
                if flat != run["arrays"][a.arg]:
                    problems.append(f"{a.arg}: symbolic {run['arrays'][a.arg]} != native {flat} (line {run['line']})")
    return dict(ok=not problems, problems=problems, native=nat, symbolic=sym)


if __name__ == "__main__":
    repo, reg = load()
    fi = repo.find(sys.argv[1])
    con = reg.contracts[fi.qualname]
    inputs = json.loads(sys.argv[2])
    arity = json.loads(sys.argv[3])
    print(json.dumps(crosscheck(repo, reg, fi, con, inputs, arity), indent=1, default=str)[:3000])
