"""Statement execution, calls, loops (invariant mode / unroll mode), function verification."""
import ast
import re

import z3

from .evalx import Evaluator, EXPAND_LIMIT
from .state import *  # noqa
from .values import *  # noqa

MAX_UNROLL = 12
MAX_PATHS = 4000


TRIG_AXIOM = []


def pull_foralls(f):
    """prenex: (a -> forall x. m) and (forall x. m) become a single quantifier block (better triggers for z3)"""
    if z3.is_quantifier(f) and f.is_forall():
        n = f.num_vars()
        cs = [z3.Const(fresh_name(f.var_name(i)), f.var_sort(i)) for i in range(n)]
        body = z3.substitute_vars(f.body(), *reversed(cs))
        vs, m = pull_foralls(body)
        return cs + vs, m
    if z3.is_implies(f):
        vs, m = pull_foralls(f.arg(1))
        if vs:
            return vs, z3.Implies(f.arg(0), m)
    return [], f


def parse_expr(s):
    return ast.parse(s.strip(), mode="eval").body


_TYPE_RE = re.compile(r"^(\w+)\[(.*)\]$")


class Executor(Evaluator):
    # ------------------------------------------------------------------ statements
    def exec_block(self, stmts, st):
        """returns list of (state, outcome)"""
        states = [st]
        results = []
        for stmt in stmts:
            nxt = []
            for s in states:
                for s2, out in self.exec_stmt(stmt, s):
                    if out[0] == "next":
                        nxt.append(s2)
                    else:
                        results.append((s2, out))
            states = nxt
            if len(states) + len(results) > MAX_PATHS:
                raise Unsupported("path explosion")
            if not states:
                break
        results.extend((s, ("next",)) for s in states)
        return results

    def exec_stmt(self, stmt, st):
        self.line = stmt.lineno
        m = getattr(self, "s_" + type(stmt).__name__, None)
        if m is None:
            raise Unsupported(f"statement {type(stmt).__name__} (line {stmt.lineno})")
        return m(stmt, st)

    def s_Pass(self, stmt, st):
        return [(st, ("next",))]

    def s_Expr(self, stmt, st):
        if isinstance(stmt.value, ast.Constant):
            return [(st, ("next",))]  # docstring
        if isinstance(stmt.value, ast.Yield):
            env = getattr(self.cur_contract, "extra", {}).get("env", {}) if self.cur_contract else {}
            if "yield" not in env:
                raise Unsupported("yield without an environment handler")
            v = self.eval(stmt.value.value, st) if stmt.value.value is not None else None
            env["yield"](self, st, stmt, [v])
            return [(st, ("next",))]
        if isinstance(stmt.value, ast.Call):
            f = stmt.value.func
            if isinstance(f, ast.Attribute) and isinstance(f.value, ast.Name) and f.value.id == "logger":
                return [(st, ("next",))]
            return [(s, ("raise", _v.name) if isinstance(_v, RaiseV) else ("next",)) for s, _v in self.call_multi(stmt.value, st)]
        self.eval(stmt.value, st)
        return [(st, ("next",))]

    def s_Assign(self, stmt, st):
        out = []
        for s, v in self.eval_multi(stmt.value, st):
            if isinstance(v, RaiseV):
                out.append((s, ("raise", v.name)))
                continue
            if isinstance(v, AExpr):
                tname = stmt.targets[0].id if isinstance(stmt.targets[0], ast.Name) else "tmp"
                v = self.materialize(s, v, tname)
            for t in stmt.targets:
                self.assign(t, v, s)
            out.append((s, ("next",)))
        return out

    def s_AnnAssign(self, stmt, st):
        if stmt.value is None:
            return [(st, ("next",))]
        v = self.eval(stmt.value, st)
        self.assign(stmt.target, v, st)
        return [(st, ("next",))]

    def s_AugAssign(self, stmt, st):
        cur = self.eval(stmt.target, st)
        v = self.eval(stmt.value, st)
        self.line = stmt.lineno
        self.assign(stmt.target, self.binop(st, stmt.op, cur, v), st)
        return [(st, ("next",))]

    def assign(self, target, v, st):
        if isinstance(target, ast.Name):
            st.env[target.id] = v
        elif isinstance(target, (ast.Tuple, ast.List)):
            if isinstance(v, Opaque):
                v = tuple(Opaque(f"{v.tag}[{k}]") for k in range(len(target.elts)))
            if not isinstance(v, tuple) or len(v) != len(target.elts):
                raise Unsupported("tuple assignment shape")
            for t, x in zip(target.elts, v):
                self.assign(t, x, st)
        elif isinstance(target, ast.Subscript):
            base = self.eval(target.value, st)
            idx = self.eval(target.slice, st)
            idxs = list(idx) if isinstance(idx, tuple) else [idx]
            if isinstance(base, Arr):
                self.line = target.lineno
                tv = self.index_for_store(st, base, idxs, ast.unparse(target.value))
                self.store(st, tv, v)
            elif isinstance(base, dict):
                raise Unsupported("dict store")
            elif isinstance(base, Opaque):
                pass
            else:
                raise Unsupported(f"store into {type(base).__name__}")
        elif isinstance(target, ast.Attribute):
            base = self.eval(target.value, st)
            if isinstance(base, dict):
                base[target.attr] = v
            else:
                raise Unsupported("attribute store")
        else:
            raise Unsupported("assignment target")

    def index_for_store(self, st, base, idxs, what):
        axes = []
        it = iter(idxs)
        for a in base.axes:
            if a[0] == "fix":
                axes.append(a)
                continue
            try:
                i = next(it)
            except StopIteration:
                axes.append(a)
                continue
            _k, start, length = a
            if isinstance(i, SliceV):
                lo = 0 if i.lo is None else as_int(i.lo)
                hi = length if i.hi is None else as_int(i.hi)
                if isinstance(lo, int) and lo < 0:
                    lo = length + lo
                if isinstance(hi, int) and hi < 0:
                    hi = length + hi
                if self.check_bounds and not (i.lo is None and i.hi is None):
                    self.oblige(st, "bounds", what + ".slice", b_and(lo >= 0, lo <= hi, hi <= length), tags={"C16"})
                axes.append(("rng", start + lo, hi - lo))
            elif isinstance(i, (Arr, AExpr)):
                raise Unsupported("fancy store")
            else:
                i = self.norm_index(st, i, length, what)
                axes.append(("fix", start + i))
        return Arr(base.obj, axes)

    def s_Return(self, stmt, st):
        out = []
        if stmt.value is None:
            return [(st, ("return", None, stmt.lineno))]
        for s, v in self.eval_multi(stmt.value, st):
            out.append((s, ("raise", v.name) if isinstance(v, RaiseV) else ("return", v, stmt.lineno)))
        return out

    def s_Break(self, stmt, st):
        return [(st, ("break",))]

    def s_Continue(self, stmt, st):
        return [(st, ("continue",))]

    def s_Raise(self, stmt, st):
        e = stmt.exc
        name = ast.unparse(e.func) if isinstance(e, ast.Call) else (ast.unparse(e) if e is not None else "")
        return [(st, ("raise", name))]

    def s_Try(self, stmt, st):
        if stmt.finalbody or stmt.orelse:
            raise Unsupported("try/finally or try/else")
        out = []
        for s, oc in self.exec_block(stmt.body, st):
            if oc[0] != "raise":
                out.append((s, oc))
                continue
            handled = False
            for h in stmt.handlers:
                hname = ast.unparse(h.type) if h.type is not None else None
                if hname is None or hname == oc[1] or hname.split(".")[-1] == (oc[1] or "").split(".")[-1] or hname in ("Exception", "BaseException"):
                    if h.name:
                        s.env[h.name] = Opaque("exception")
                    out.extend(self.exec_block(h.body, s))
                    handled = True
                    break
            if not handled:
                out.append((s, oc))
        return out

    def s_Assert(self, stmt, st):
        c = truth(self.eval(stmt.test, st))
        self.oblige(st, "assert", "", c)
        return [(st, ("next",))]

    def branch(self, st, c):
        """fork on condition c: returns list of (state, taken: bool)"""
        c = truth(c)
        if isinstance(c, bool):
            return [(st, c)]
        out = []
        s1 = st.fork()
        s1.pc.append(c)
        if self.prover.feasible(self.axioms + s1.pc):
            out.append((s1, True))
        s2 = st.fork()
        s2.pc.append(z3.Not(c))
        if self.prover.feasible(self.axioms + s2.pc):
            out.append((s2, False))
        return out

    def s_If(self, stmt, st):
        out = []
        for s0, c in self.eval_multi(stmt.test, st):
            if isinstance(c, Opaque):
                # e.g. NUMBA_DISABLE_JIT: both dispatch branches are executed; identical resulting states are merged
                a = self.exec_block(stmt.body, s0.fork())
                b = self.exec_block(stmt.orelse, s0.fork())

                def sig(s, oc):
                    envs = tuple(sorted((k, "opaque" if isinstance(v, (Opaque, FuncRef)) else id(v) if not is_scalar(v) else str(v)) for k, v in s.env.items()))
                    return (oc[0], envs, tuple(sorted((k, id(v)) for k, v in s.heap.items())), len(s.pc))

                seen = {}
                for s, oc in a + b:
                    seen.setdefault(sig(s, oc), (s, oc))
                out.extend(seen.values())
                continue
            for s, taken in self.branch(s0, c):
                out.extend(self.exec_block(stmt.body if taken else stmt.orelse, s))
        return out

    def eval_multi(self, node, st):
        """evaluate an expression that may contain inlined calls with several return paths: list of (state, value)"""
        self._pending = None
        if isinstance(node, ast.IfExp) and (self.has_forking_call(node.body, st) or self.has_forking_call(node.orelse, st)):
            out = []
            for s0, c in self.eval_multi(node.test, st):
                if isinstance(c, Opaque):
                    c = fresh_bool("opaque")
                for s1, taken in self.branch(s0, c):
                    out.extend(self.eval_multi(node.body if taken else node.orelse, s1))
            return out
        if isinstance(node, ast.BoolOp) and any(self.has_forking_call(v, st) for v in node.values):
            # short-circuit evaluation with forking operands
            is_and = isinstance(node.op, ast.And)
            done, pending = [], [st]
            for operand in node.values:
                nxt = []
                for s0 in pending:
                    for s1, v in self.eval_multi(operand, s0):
                        for s2, taken in self.branch(s1, v):
                            if taken == is_and:
                                nxt.append(s2)  # and: true -> continue ; or: false -> continue
                            else:
                                done.append((s2, not is_and))
                pending = nxt
            done.extend((s, is_and) for s in pending)
            return done
        if self.has_forking_call(node, st):
            return self.eval_forking(node, st)
        return [(st, self.eval(node, st))]

    # A call that must be executed statement-wise (inlined body or by contract with several outcomes) may only occur as
    # a whole expression statement / assignment RHS / return value / if test / direct argument thereof.
    def has_forking_call(self, node, st):
        for sub in ast.walk(node):
            if isinstance(sub, ast.Call) and self.is_user_call(sub, st):
                return True
        return False

    OPAQUE_CALLS = ("function_from_address", "build_function_address_list", "get_function_addresses")

    def env_name(self, node):
        f = node.func
        try:
            name = ast.unparse(f)
        except Exception:
            return None
        env = getattr(self.cur_contract, "extra", {}).get("env", {}) if self.cur_contract else {}
        if self.module is not self.fi.module:
            return None
        if name in env:
            return name
        import re as _re
        generic = _re.sub(r"\[[^\]]*\]", "[*]", name)  # 'processes[i].start' matches the key 'processes[*].start'
        return generic if generic in env else None

    def self_method(self, node):
        f = node.func
        if isinstance(f, ast.Attribute) and isinstance(f.value, ast.Name) and f.value.id == "self" and self.fi is not None and self.fi.cls:
            q = f"{self.fi.relpath}::{self.fi.cls}.{f.attr}"
            return self.repo.functions.get(q)
        return None

    def is_user_call(self, node, st):
        f = node.func
        if not st.spec and self.env_name(node):
            return True
        if not st.spec and self.self_method(node) is not None:
            return True
        if isinstance(f, ast.Name) and f.id in self.OPAQUE_CALLS:
            return False
        if isinstance(f, ast.Name):
            if f.id in st.env:
                v = st.env[f.id]
                return isinstance(v, (FuncRef, Opaque))
            if st.spec:
                return False
            return self.module is not None and self.repo.resolve(self.module, f.id) is not None
        return False

    def eval_forking(self, node, st):
        # find the user calls in evaluation order, execute them first (each may fork), substitute results
        calls = [sub for sub in ast.walk(node) if isinstance(sub, ast.Call) and self.is_user_call(sub, st)]
        # innermost first
        calls.sort(key=lambda c: -self._depth(node, c))
        results = [(st, {})]
        for c in calls:
            nxt = []
            for s, memo in results:
                self._memo = memo
                for s2, v in self.call_multi(c, s):
                    m2 = dict(memo)
                    m2[id(c)] = v
                    nxt.append((s2, m2))
            results = nxt
        out = []
        for s, memo in results:
            self._memo = memo
            try:
                out.append((s, self.eval(node, s)))
            finally:
                self._memo = {}
        return out

    def _depth(self, root, target):
        def rec(n, d):
            if n is target:
                return d
            for ch in ast.iter_child_nodes(n):
                r = rec(ch, d + 1)
                if r is not None:
                    return r
            return None

        return rec(root, 0) or 0

    _memo = {}

    # ------------------------------------------------------------------ calls
    def call(self, node, st):
        if id(node) in self._memo:
            return self._memo[id(node)]
        if not st.spec and (self.env_name(node) or self.self_method(node) is not None):
            res = self.call_multi(node, st)
            if len(res) != 1:
                raise Unsupported(f"environment call with several outcomes inside an expression (line {self.line})")
            return res[0][1]
        f = node.func
        args = node.args
        # contract language builtins
        if st.spec and isinstance(f, ast.Name):
            r = self.spec_call(f.id, node, st)
            if r is not NotImplemented:
                return r
        if isinstance(f, ast.Name):
            name = f.id
            if name in ("sum", "max", "min") and len(args) == 1 and isinstance(args[0], ast.GeneratorExp) and not st.spec:
                return self.reduce_genexp(name, args[0], st)
            if name in ("max", "min") and name not in st.env:
                vals = [self.eval(a, st) for a in args]
                if len(vals) == 1 and isinstance(vals[0], (Arr, AExpr)):
                    return self.reduce_minmax(st, vals[0], name)
                acc = vals[0]
                for v in vals[1:]:
                    acc = self.vmax(acc, v) if name == "max" else self.vmin(acc, v)
                return acc
            if name == "len":
                v = self.eval(args[0], st)
                if isinstance(v, (Arr, AExpr)):
                    return v.shape[0]
                if isinstance(v, ListObj):
                    return st.heap[v.id][0]
                if isinstance(v, tuple):
                    return len(v)
                raise Unsupported("len of " + type(v).__name__)
            if name == "abs":
                v = as_int(self.eval(args[0], st))
                return abs(v) if isinstance(v, int) else z3.If(v >= 0, v, -v)
            if name == "int":
                v = self.eval(args[0], st)
                if isinstance(v, tuple) and len(v) == 3 and v[0] == "frac":
                    a, b = v[1], v[2]
                    if isinstance(a, int) and isinstance(b, int) and b != 0:
                        return int(a / b)
                    self.oblige(st, "div", "nonzero", b != 0)
                    aa = z3.If(zint(a) >= 0, zint(a), -zint(a))
                    bb = z3.If(zint(b) >= 0, zint(b), -zint(b))
                    q = aa / bb
                    return z3.If((zint(a) >= 0) == (zint(b) > 0), q, -q)
                return as_int(v)
            if name == "bool":
                return truth(self.eval(args[0], st))
            if name in ("range", "enumerate"):
                return (name,) + tuple(self.eval(a, st) for a in args)
            if name in self.OPAQUE_CALLS:
                return Opaque(name)
            if self.is_user_call(node, st):
                res = self.call_multi(node, st)
                if len(res) != 1:
                    raise Unsupported(f"call to {name} with several outcomes inside an expression (line {self.line})")
                s2, v = res[0]
                if s2 is not st:
                    st.env, st.heap, st.pc = s2.env, s2.heap, s2.pc
                return v
            try:
                tgt = self.lookup(name, st)
            except Unsupported:
                tgt = None
            if isinstance(tgt, Opaque):
                return Opaque(f"{name}()")  # environment object (Queue(), Process(...)): arguments are not interpreted
            raise Unsupported(f"call to unknown function {name} (line {self.line})")
        if isinstance(f, ast.Attribute):
            base = self.eval(f.value, st)
            if isinstance(base, Opaque):
                return self.lib_call(base.tag, f.attr, node, st)
            if isinstance(base, (Arr, AExpr, ListObj)):
                return self.method_call(base, f.attr, node, st)
            if isinstance(base, dict):
                raise Unsupported(f"method call {f.attr} on object")
        raise Unsupported(f"call form (line {self.line})")

    def reduce_genexp(self, name, gen, st):
        """sum/max/min(<expr> for x in <array rows>) as a specification term"""
        if len(gen.generators) != 1 or gen.generators[0].ifs or not isinstance(gen.generators[0].target, ast.Name):
            raise Unsupported("generator expression shape")
        it = self.eval(gen.generators[0].iter, st)
        if not isinstance(it, (Arr, AExpr)):
            raise Unsupported("generator over " + type(it).__name__)
        n = it.shape[0]
        var = gen.generators[0].target.id

        def term(k):
            s = st.fork()
            saved = self.check_bounds
            self.check_bounds = False
            try:
                s.env[var] = self.index(s, it, [k])
                return as_int(self.eval(gen.elt, s))
            finally:
                self.check_bounds = saved

        saved = self.check_bounds
        self.check_bounds = False
        try:
            if name == "sum":
                if isinstance(n, int):
                    acc = 0
                    for k in range(n):
                        acc = acc + term(k)
                    return acc
                return self.sum_function(0, term)(zint(n))
            ae = AExpr([n], lambda ix: term(ix[0]), "i64")
        finally:
            self.check_bounds = saved
        return self.reduce_minmax(st, ae, name)

    def lib_call(self, mod, attr, node, st):
        args = [self.eval(a, st) for a in node.args]
        kw = {k.arg: self.eval(k.value, st) for k in node.keywords}
        if mod in ("np", "numpy"):
            if attr in ("max", "min"):
                return self.reduce_minmax(st, args[0], attr)
            if attr in ("any", "all"):
                return self.reduce_anyall(st, args[0], attr)
            if attr == "copy":
                return self.materialize(st, args[0], "copy")
            if attr == "array" and args and isinstance(args[0], (Arr, AExpr)):
                return self.materialize(st, args[0], "array")
            if attr == "equal":
                return self.compare(st, ast.Eq(), args[0], args[1])
            if attr == "argsort":
                # a permutation of the indices that sorts the array (ties in any order: A-NUMPY)
                src = self.to_aexpr(st, args[0])
                n = src.shape[0]
                if src.ndim != 1 or not isinstance(n, int):
                    raise Unsupported("np.argsort outside unroll mode")
                obj = ArrObj("argsort", "i64", [n])
                term = obj.fresh_term()
                st.heap[obj.id] = term
                cells = [z3.Select(term, z3.IntVal(k)) for k in range(n)]
                for c in cells:
                    st.pc.append(z3.And(c >= 0, c < n))
                if n > 1:
                    st.pc.append(z3.Distinct(*cells))
                for k in range(n - 1):
                    st.pc.append(zint(src.fn([cells[k]])) <= zint(src.fn([cells[k + 1]])))
                return Arr(obj)
            if attr in ("zeros", "empty", "ones", "full"):
                shape = args[0]
                shape = list(shape) if isinstance(shape, tuple) else [shape]
                dt = kw.get("dtype", args[1] if attr != "full" and len(args) > 1 else None)
                dtype = self.dtype_of(dt)
                obj = ArrObj(attr, dtype, [as_int(s) for s in shape])
                if attr == "empty":
                    st.heap[obj.id] = obj.fresh_term()
                else:
                    fill = 0 if attr == "zeros" else (1 if attr == "ones" else kw.get("fill_value", args[1] if len(args) > 1 else 0))
                    if dtype == "bool":
                        st.heap[obj.id] = z3.K(INT, zbool(truth(fill))) if obj.ndim == 1 else z3.Lambda([z3.Int(fresh_name("z")) for _ in range(obj.ndim)], zbool(truth(fill)))
                    else:
                        self.range_check(st, obj, fill)
                        st.heap[obj.id] = z3.K(INT, zint(fill)) if obj.ndim == 1 else z3.Lambda([z3.Int(fresh_name("z")) for _ in range(obj.ndim)], zint(fill))
                return Arr(obj)
            return Opaque(f"np.{attr}()")
        if mod == "logger":
            return None
        return Opaque(f"{mod}.{attr}()")

    def dtype_of(self, dt):
        tag = dt.tag if isinstance(dt, Opaque) else str(dt)
        for k, v in (("uint8", "u8"), ("uint16", "u16"), ("int16", "i16"), ("int32", "i32"), ("int64", "i64"), ("bool", "bool")):
            if tag.endswith(k):
                return v
        return "i64"

    def method_call(self, base, attr, node, st):
        args = [self.eval(a, st) for a in node.args]
        if isinstance(base, ListObj):
            n, t = st.heap[base.id]
            if attr == "insert" and isinstance(args[0], int) and args[0] == 0:
                k = z3.Int(fresh_name("l"))
                st.heap[base.id] = (n + 1, z3.Lambda([k], z3.If(k == 0, zint(args[1]), z3.Select(t, k - 1))))
                return None
            if attr == "append":
                st.heap[base.id] = (n + 1, z3.Store(t, zint(n), zint(args[0])))
                return None
            raise Unsupported(f"list.{attr}")
        if attr == "copy":
            return self.materialize(st, base, "copy")
        if attr == "fill" and isinstance(base, Arr):
            self.store(st, base, args[0])
            return None
        if attr in ("min", "max") and not args:
            return self.reduce_minmax(st, base, attr)
        if attr == "reshape":
            return self.reshape_rows(st, base, args)
        raise Unsupported(f"array method {attr}")

    def flat_index(self, r, n, c):
        """row-major position of cell (r, c) in a table with n columns. Symbolically an UNINTERPRETED function shared by the executor
        (reshape) and the contract language (flat): what is proved holds for every indexing function, in particular r * n + c."""
        r, n, c = as_int(r), as_int(n), as_int(c)
        if all(isinstance(x, int) for x in (r, n, c)):
            return r * n + c
        F = self.ufuns.get("flat")
        if F is None:
            F = z3.Function("flat", INT, INT, INT, INT)
            self.ufuns["flat"] = F
        return F(zint(r), zint(n), zint(c))

    def reshape_rows(self, st, base, args):
        """a.reshape((-1, n)) of a fresh 1-D copy: a fresh 2-D array with cell (r, c) = a[r * n + c]; NumPy raises unless n divides len(a)"""
        shp = args[0] if len(args) == 1 and isinstance(args[0], tuple) else tuple(args)
        if not (isinstance(base, Arr) and base.ndim == 1 and base.is_whole() and base.obj.name == "copy" and len(shp) == 2 and isinstance(shp[0], int) and shp[0] == -1):
            raise Unsupported("reshape other than <fresh copy>.reshape((-1, n))")
        n = as_int(shp[1])
        m = base.shape[0]
        src = self.to_aexpr(st, base)
        q = z3.Int(fresh_name("q"))
        self.oblige(st, "div", "reshape.columns", n >= 1 if is_sym(n) else bool(n >= 1), tags={"C16"})
        self.oblige(st, "bounds", "reshape.divisible", z3.Exists([q], z3.And(q >= 0, q * zint(n) == zint(m))), tags={"C16"})
        rows = fresh_int("rows")
        st.pc.append(z3.And(rows >= 0, rows * zint(n) == zint(m)))
        obj = ArrObj("reshaped", base.dtype, [rows, n])
        r, c = z3.Int(fresh_name("r")), z3.Int(fresh_name("c"))
        term = obj.fresh_term()
        st.heap[obj.id] = term
        st.pc.append(z3.ForAll([r, c], z3.Implies(z3.And(r >= 0, r < rows, c >= 0, c < zint(n)), z3.Select(term, r, c) == zint(src.fn([self.flat_index(r, n, c)]))), patterns=[z3.Select(term, r, c)]))
        return Arr(obj)

    def resolve_callee(self, node, st):
        f = node.func
        name = f.id
        con = self.contracts.contracts.get(self.fi.qualname) if self.fi else None
        if name in st.env:
            v = st.env[name]
            if isinstance(v, FuncRef):
                return ("func", v.qualname)
            if isinstance(v, Opaque):
                if self.cur_contract and name in self.cur_contract.calls:
                    tgt = self.cur_contract.calls[name]
                    return ("iface", tgt) if tgt.startswith("iface:") else ("func", tgt)
                raise Unsupported(f"indirect call through {name} without an interface binding")
        if self.cur_contract and name in self.cur_contract.calls:
            tgt = self.cur_contract.calls[name]
            if tgt.startswith("iface:"):
                return ("iface", tgt)
            return ("func", tgt)
        fi = self.repo.resolve(self.module, name)
        if fi is None:
            raise Unsupported(f"unresolved callee {name}")
        return ("func", fi.qualname)

    cur_contract = None

    def call_multi(self, node, st):
        """execute a user-level call: list of (state, value)"""
        en = self.env_name(node)
        if en and not st.spec:
            self.line = node.lineno
            handler = self.cur_contract.extra["env"][en]
            args = [self.eval(a, st) for a in node.args]
            out = handler(self, st, node, args)
            return out if isinstance(out, list) else [(st, out)]
        sm = self.self_method(node) if not st.spec else None
        if sm is not None:
            self.line = node.lineno
            args = [st.env["self"]] + [self.eval(a, st) for a in node.args]
            con = self.contracts.contracts.get(sm.qualname)
            if con is not None:
                return self.call_by_contract(con, sm, args, st, node)
            return self.inline_call(sm, args, st)
        if not (isinstance(node.func, ast.Name) and self.is_user_call(node, st)):
            return [(st, self.eval(node, st))]
        kind, target = self.resolve_callee(node, st)
        args = [self.eval(a, st) for a in node.args]
        args = [self.materialize(st, a, "arg") if isinstance(a, AExpr) else a for a in args]
        if node.keywords:
            raise Unsupported("keyword arguments in a user call")
        self.line = node.lineno
        gc = getattr(self.cur_contract, "extra", {}).get("ghost_calls", {}) if self.cur_contract else {}
        if node.func.id in gc and self.module is self.fi.module:
            gname = gc[node.func.id]
            st.env[gname] = st.env.get(gname, 0) + 1
        if kind == "iface":
            con = self.contracts.interfaces[target.split(":", 1)[1]]
            return self.call_by_contract(con, None, args, st, node)
        fi = self.repo.functions[target.split("#")[0]]
        con = self.contracts.contracts.get(target)
        name = node.func.id
        if con is not None and not (self.cur_contract and name in self.cur_contract.inline) and not self.unroll_inline_all:
            return self.call_by_contract(con, fi, args, st, node)
        return self.inline_call(fi, args, st)

    unroll_inline_all = False

    def list_repeat(self, st, elems, n):
        dtype = "bool" if all(isinstance(e, bool) for e in elems) else "i64"
        if len(elems) != 1:
            raise Unsupported("list repetition of several elements")
        obj = ArrObj("list", dtype, [as_int(n)])
        st.heap[obj.id] = z3.K(INT, zbool(elems[0]) if dtype == "bool" else zint(elems[0]))
        return Arr(obj)

    def inline_call(self, fi, args, st):
        if st.depth > 6:
            raise Unsupported("inline depth (recursion?)")
        params = [a.arg for a in fi.node.args.args]
        if len(params) != len(args):
            raise Unsupported(f"arity mismatch calling {fi.name}")
        saved_env, saved_mod, saved_fi_line = st.env, self.module, self.line
        s = st
        s.env = dict(zip(params, args))
        s.depth += 1
        self.module = fi.module
        out = []
        try:
            for s2, outc in self.exec_block(fi.node.body, s):
                s2.depth -= 1
                if outc[0] == "raise":
                    self.raised.append(s2)
                    continue
                v = outc[1] if outc[0] == "return" else None
                s2.env = dict(saved_env)
                out.append((s2, v))
        finally:
            self.module = saved_mod
        return out

    raised = []

    def call_by_contract(self, con, fi, args, st, node):
        pnames = list(con.types.keys()) if fi is None else [a.arg for a in fi.node.args.args]
        if len(pnames) != len(args):
            raise Unsupported(f"arity mismatch calling {con.qualname}: {len(pnames)} vs {len(args)}")
        cenv = dict(zip(pnames, args))
        callee = con.qualname.split("::")[-1]
        cg = getattr(self.cur_contract, "extra", {}).get("call_ghosts", {}) if self.cur_contract else {}
        if node is not None and isinstance(node.func, ast.Name) and node.func.id in cg and self.module is self.fi.module:
            for gname, gexpr in cg[node.func.id].items():
                cenv[gname] = self.eval_spec(gexpr, st, {})
        ch = getattr(self.cur_contract, "extra", {}).get("call_hints", {}) if self.cur_contract else {}
        if node is not None and isinstance(node.func, ast.Name) and node.func.id in ch and self.module is self.fi.module:
            self.apply_hints(st, ch[node.func.id], {})  # lemma / axiom instances needed by the callee's precondition
        # shape symbols of the callee are bound from the actual arrays
        genv = self.bind_shape_syms(con, cenv)
        pre = st.snapshot()
        pre.env = dict(cenv)
        pre.ghost_env = genv
        pre.old = pre
        # a violated callee precondition voids everything the caller proves through that call: relevant to every property both serve
        shared = set(con.props or []) & set(self.cur_contract.props or []) if self.cur_contract is not None else set()
        if con.qualname.startswith("iface:") and self.cur_contract is not None:
            shared = set(self.cur_contract.props or [])
        for label, clause, tags in con.clauses("requires"):
            g = self.eval_spec(clause, pre, {})
            self.oblige(st, "pre", f"{callee}.{label}" if label else callee, g, tags=set(tags) | self.cur_tags | shared, line=node.lineno)
        # havoc frame
        mods = con.modifies if con.modifies is not None else [p for p, a in cenv.items() if isinstance(a, Arr)]
        for p in mods:
            a = cenv.get(p)
            if isinstance(a, Arr):
                if a.is_whole():
                    st.heap[a.obj.id] = a.obj.fresh_term("'")
                else:
                    # only the viewed region may change
                    newt = a.obj.fresh_term("'")
                    old = st.heap[a.obj.id]
                    ks = [z3.Int(fresh_name("h")) for _ in range(a.obj.ndim)]
                    conds = []
                    for k, ax in zip(ks, a.axes):
                        conds.append(k == zint(ax[1]) if ax[0] == "fix" else z3.And(k >= zint(ax[1]), k < zint(ax[1]) + zint(ax[2])))
                    st.heap[a.obj.id] = z3.Lambda(ks, z3.If(z3.And(*conds), z3.Select(newt, *ks), z3.Select(old, *ks)))
                if a.obj.dtype in DTYPE_RANGE:
                    lo_, hi_ = DTYPE_RANGE[a.obj.dtype]
                    ks_ = [z3.Int(fresh_name("d")) for _ in a.obj.shape]
                    e_ = z3.Select(st.heap[a.obj.id], *ks_)
                    st.pc.append(z3.ForAll(ks_, z3.And(e_ >= lo_, e_ <= hi_)))
        # result
        rt = con.result
        alts = []
        if rt.startswith("opt:"):
            s_none = st.fork()
            alts = [(s_none, None), (st, self.fresh_value(rt[4:], f"{callee}_res", st, genv))]
        elif rt == "int":
            alts = [(st, fresh_int(f"{callee}_res"))]
        elif rt == "bool":
            alts = [(st, fresh_bool(f"{callee}_res"))]
        elif rt == "none":
            alts = [(st, None)]
        else:
            alts = [(st, self.fresh_value(rt, f"{callee}_res", st, genv))]
        out = []
        gvals = {}
        for gname in set(con.extra.get("ghost_calls", {}).values()):
            gvals[gname] = fresh_int(gname)
            st.pc.append(gvals[gname] >= 0)
        for gname in set(con.extra.get("ghost_results", {}).values()):
            gvals[gname] = fresh_int(gname)
        for gname, gv in con.extra.get("ghost_init", {}).items():
            if not (isinstance(gv, str) and gv == "emptylist"):
                gvals.setdefault(gname, fresh_int(gname))  # final value of a callee ghost variable: existentially chosen by the callee
        for s_alt, res in alts:
            if s_alt is not st:
                s_alt.pc = list(st.pc) if len(s_alt.pc) < len(st.pc) else s_alt.pc
            post = s_alt.snapshot()
            post.env = dict(cenv)
            post.env["result"] = res
            post.env.update(gvals)
            post.ghost_env = genv
            post.old = pre
            for label, clause, tags in con.clauses("ensures"):
                s_alt.pc.append(zbool(truth(self.eval_spec(clause, post, {}))))
            if len(alts) > 1 and not self.prover.feasible(self.axioms + s_alt.pc):
                import os as _os
                if _os.environ.get("NUCSVC_DEBUG_ALT"):
                    base = len(s_alt.pc) - len(con.clauses("ensures"))
                    for j, (label, clause, tags) in enumerate(con.clauses("ensures")):
                        ok = self.prover.feasible(self.axioms + s_alt.pc[:base + j + 1])
                        print("ALT", res is None, label, ok)
                        if not ok:
                            break
                continue
            out.append((s_alt, res))
        self.used_contracts.add(con.qualname)
        sa = getattr(self.cur_contract, "extra", {}).get("snap_after", {}) if self.cur_contract else {}
        if node is not None and isinstance(node.func, ast.Name) and node.func.id in sa and self.module is self.fi.module:
            # ghost snapshots of arrays right after this call (a name for the mid-iteration state in later hints / clauses)
            for gname, gexpr in sa[node.func.id].items():
                for s_alt, res in out:
                    v = self.eval_spec(gexpr, s_alt, {})
                    s_alt.env[gname] = self.snapshot(s_alt, v) if isinstance(v, Arr) else v
        go = getattr(self.cur_contract, "extra", {}).get("ghost_out", {}) if self.cur_contract else {}
        if node is not None and isinstance(node.func, ast.Name) and node.func.id in go and self.module is self.fi.module:
            # final value of a ghost variable of the callee (existentially chosen there), bound to a ghost variable of the caller
            for mine, theirs in go[node.func.id].items():
                for s_alt, res in out:
                    s_alt.env[mine] = gvals[theirs]
        gr = getattr(self.cur_contract, "extra", {}).get("ghost_results", {}) if self.cur_contract else {}
        if node is not None and isinstance(node.func, ast.Name) and node.func.id in gr and self.module is self.fi.module:
            for s_alt, res in out:
                s_alt.env[gr[node.func.id]] = res
        return out

    used_contracts = set()

    def bind_shape_syms(self, con, cenv):
        genv = {}

        def rec(types, vals):
            for p, t in types.items():
                a = vals.get(p) if isinstance(vals, dict) else None
                if isinstance(t, dict):
                    if isinstance(a, dict):
                        rec(t, a)
                    continue
                m = _TYPE_RE.match(t)
                if m and isinstance(a, (Arr, AExpr)):
                    dims = [d.strip() for d in m.group(2).split(",")]
                    for d, s in zip(dims, a.shape):
                        if not d.lstrip("-").isdigit() and d not in genv:
                            genv[d] = s
                elif m and isinstance(a, ListObj):
                    pass

        rec(con.types, cenv)
        return genv

    # ------------------------------------------------------------------ contract language
    def eval_spec(self, clause, st, extra):
        node = parse_expr(clause) if isinstance(clause, str) else clause
        s = st.fork()
        s.spec = True
        s.guards = []
        s.env.update(extra)
        saved = self.line
        try:
            return self.eval(node, s)
        finally:
            self.line = saved

    def snapshot(self, s, v):
        ae = self.to_aexpr(s, v)
        if v.is_whole():
            ae.term = s.heap[v.obj.id]
        return ae

    def spec_call(self, name, node, st):
        a = node.args
        if name in ("forall", "exists"):
            var = a[0].id
            lo = as_int(self.eval(a[1], st))
            hi = as_int(self.eval(a[2], st))
            if isinstance(lo, int) and isinstance(hi, int) and hi - lo <= EXPAND_LIMIT:
                vals = []
                for k in range(lo, hi):
                    s = st.fork()
                    s.env[var] = k
                    self._mark_bound(s, var)
                    vals.append(truth(self.eval(a[3], s)))
                return b_and(*vals) if name == "forall" else b_or(*vals)
            kk = z3.Int(fresh_name(var))
            s = st.fork()
            s.env[var] = kk
            self._mark_bound(s, var)
            body = truth(self.eval(a[3], s))
            rng = b_and(kk >= lo, kk < hi)
            if name == "forall":
                f = b_implies(rng, body)
                if isinstance(f, bool):
                    return f
                vs, matrix = pull_foralls(f)
                return z3.ForAll([kk] + vs, matrix)
            f = b_and(rng, body)
            return f if isinstance(f, bool) else z3.Exists([kk], f)
        if name == "implies":
            p = truth(self.eval(a[0], st))
            if p is False:
                return True
            return b_implies(p, self.eval(a[1], st))
        if name == "iff":
            p, q = truth(self.eval(a[0], st)), truth(self.eval(a[1], st))
            return v_eq(p, q) if (is_sym(p) or is_sym(q)) else p == q
        if name == "ite":
            c = truth(self.eval(a[0], st))
            if isinstance(c, bool):
                return self.eval(a[1] if c else a[2], st)
            return v_ite(c, self.eval(a[1], st), self.eval(a[2], st))
        if name == "old":
            s = st.old.fork()
            s.spec = True
            for k in self._bound_names(st):
                s.env[k] = st.env[k]
            s.env["__bound__"] = st.env.get("__bound__", ())
            s.ghost_env = st.ghost_env
            v = self.eval(a[0], s)
            return self.snapshot(s, v) if isinstance(v, Arr) else v
        if name in ("pre", "it0"):
            stack = [x for x in st.pre_stack if isinstance(x, tuple)] if name == "it0" else [x for x in st.pre_stack if not isinstance(x, tuple)]
            if not stack:
                raise Unsupported(f"{name}() outside a loop contract")
            s = (stack[-1][1] if name == "it0" else stack[-1]).fork()
            s.spec = True
            for k in self._bound_names(st):
                s.env[k] = st.env[k]
            s.env["__bound__"] = st.env.get("__bound__", ())
            s.ghost_env = st.ghost_env
            v = self.eval(a[0], s)
            return self.snapshot(s, v) if isinstance(v, Arr) else v
        if name in ("sum", "count"):
            return self.spec_sum(name, node, st)
        if name == "same":
            # the whole base array of the view is unchanged since entry
            v = self.eval(a[0], st)
            return st.heap[v.obj.id] == st.old.heap[v.obj.id] if st.heap[v.obj.id] is not st.old.heap[v.obj.id] else True
        if name == "same_pre":
            v = self.eval(a[0], st)
            p = [x for x in st.pre_stack if not isinstance(x, tuple)][-1]
            return st.heap[v.obj.id] == p.heap[v.obj.id] if st.heap[v.obj.id] is not p.heap[v.obj.id] else True
        if name in ("ufun_bool", "ufun_int", "ufun_arr"):
            fname = self.eval(a[0], st)
            rest = a[1:]
            shape = None
            if name == "ufun_arr":
                shape = [as_int(self.eval(rest[0], st))]
                rest = rest[1:]
            vals = [self.eval(x, st) for x in rest]
            zargs = []
            for v in vals:
                if isinstance(v, (Arr, AExpr, SpecArr)):
                    zargs.append(self.z3_array(st, v))
                elif is_boolv(v):
                    zargs.append(zbool(v))
                else:
                    zargs.append(zint(v))
            rng = BOOL if name == "ufun_bool" else (INT if name == "ufun_int" else z3.ArraySort(INT, INT))
            key = (fname, tuple(str(z.sort()) for z in zargs), str(rng))
            F = self.ufuns.get(key)
            if F is None:
                F = z3.Function(fname, *[z.sort() for z in zargs], rng)
                self.ufuns[key] = F
            app = F(*zargs)
            return SpecArr(app, shape) if name == "ufun_arr" else app
        if name == "arr":
            # arr(j, length, expr): the tuple (expr for j in range(length)) as a specification value (witness tuples)
            var = a[0].id
            n_ = as_int(self.eval(a[1], st))
            body = a[2]
            env0 = dict(st.env)

            def fn(ix, var=var, body=body, env0=env0):
                s2 = st.fork()
                s2.env = dict(env0)
                s2.env[var] = ix[0]
                s2.env["__bound__"] = tuple(env0.get("__bound__", ())) + (var,)
                return self.eval(body, s2)

            return AExpr([n_], fn, "i64")
        if name == "trig":
            # identity marker used as an instantiation trigger: trig(x) == x (definitional axiom, pattern trig(x))
            x = zint(as_int(self.eval(a[0], st)))
            if "trig" not in self.ufuns:
                T = z3.Function("trig", INT, INT)
                y = z3.Int("trig_x")
                self.ufuns["trig"] = T
                TRIG_AXIOM.append(z3.ForAll([y], T(y) == y, patterns=[T(y)]))
            if not getattr(self, "_trig_added", False):
                self._trig_added = True
                self.axioms.append(TRIG_AXIOM[0])
            return self.ufuns["trig"](x)
        if name == "flat":
            return self.flat_index(*[self.eval(x, st) for x in a[:3]])
        if name in ("rowsrc", "rowdst"):
            # the row maps of the most recent boolean row filter A[mask] executed on this path (ghost access for loop invariants)
            fg = st.env.get("__rowmap__")
            if fg is None:
                raise VerifError(f"{name}: no row filter executed on this path")
            return fg[0 if name == "rowsrc" else 1](zint(as_int(self.eval(a[0], st))))
        if name == "rowidx":
            v = self.eval(a[0], st)
            if isinstance(v, Arr) and v.axes and v.axes[0][0] == "fix":
                return v.axes[0][1]
            raise Unsupported("rowidx of a non-row value")
        if name == "let":
            s = st.fork()
            s.env[a[0].id] = self.eval(a[1], st)
            self._mark_bound(s, a[0].id)
            return self.eval(a[2], s)
        if name.startswith("lemma_"):
            from . import lemmas

            return lemmas.instantiate(self, name, node, st)
        if name in self.macros:
            params, body = self.macros[name]
            if len(params) != len(a):
                raise Unsupported(f"macro {name}: arity")
            vals = [self.eval(x, st) for x in a]
            s = st.fork()
            for p, v in zip(params, vals):
                s.env[p] = v
                self._mark_bound(s, p)
            return self.eval(body, s)
        if name in st.env and isinstance(st.env[name], Lam):
            lam = st.env[name]
            vals = [self.eval(x, st) for x in a]
            s = st.fork()
            s.env = dict(lam.env)
            s.env.update(zip(lam.params, vals))
            return self.eval(lam.body, s)
        return NotImplemented

    def _bound_names(self, st):
        return st.env.get("__bound__", ())

    def _mark_bound(self, st, name):
        st.env["__bound__"] = tuple(st.env.get("__bound__", ())) + (name,)

    def spec_sum(self, name, node, st):
        a = node.args
        var = a[0].id
        lo = as_int(self.eval(a[1], st))
        hi = as_int(self.eval(a[2], st))

        def term(k):
            s = st.fork()
            s.env[var] = k
            self._mark_bound(s, var)
            v = self.eval(a[3], s)
            return v_ite(v, 1, 0) if name == "count" else as_int(v)

        if isinstance(lo, int) and isinstance(hi, int) and hi - lo <= EXPAND_LIMIT:
            acc = 0
            for k in range(lo, hi):
                acc = acc + term(k)
            return acc
        F = self.sum_function(lo, term)
        return F(zint(hi))

    def sum_function(self, lo, term):
        K = z3.Int("__K")
        e = z3.simplify(zint(term(K)))  # canonical form: the same sum must get the same function whatever route built its term
        key = (str(z3.simplify(zint(lo))), e.sexpr())
        if key in self.sum_funcs:
            return self.sum_funcs[key][0]
        F = z3.Function(fresh_name("sum"), INT, INT)
        h = z3.Int(fresh_name("h"))
        eh = z3.substitute(e, (K, h))
        self.axioms.append(F(zint(lo)) == 0)
        self.axioms.append(z3.ForAll([h], z3.Implies(h >= zint(lo), F(h + 1) == F(h) + eh), patterns=[F(h + 1)]))
        self.sum_funcs[key] = (F, lo, e)
        return F

    # the forall/exists/sum variables must survive old()/pre(): record them as bound names
    def e_Name(self, node, st):
        return self.lookup(node.id, st)
