"""Sidecar contract registry. Contract files under /verif/contracts call contract(), define(), interface()."""
import ast
import glob
import hashlib
import os


class Contract:
    def __init__(self, qualname, **kw):
        self.qualname = qualname
        self.function = qualname.split("#")[0]
        self.types = kw.pop("types", {})  # param -> 'i32[n,2]' | 'int' | 'bool' | 'opaque' | 'none'
        self.shape_syms = kw.pop("shape_syms", None)
        self.requires = kw.pop("requires", [])  # list of str | (label, str)
        self.ensures = kw.pop("ensures", [])  # list of (label, str[, tags])
        self.loops = kw.pop("loops", {})  # ordinal -> dict(index, invariant, decreases, fingerprint, hints)
        self.ghost = kw.pop("ghost", {})  # name -> type string
        self.modifies = kw.pop("modifies", None)  # list of param names the function may write (None = any array param)
        self.calls = kw.pop("calls", {})  # local callee name -> interface name / qualname
        self.inline = kw.pop("inline", [])  # callee names to inline even if they have a contract
        self.hints = kw.pop("hints", [])  # lemma instances assumed at every return
        self.tags = kw.pop("tags", {})  # label prefix -> property ids
        self.arities = kw.pop("arities", None)  # list of dicts shape symbol -> int for unroll mode (cex search, arity-bounded proof)
        self.unroll_only = kw.pop("unroll_only", False)
        self.raises_ok = kw.pop("raises_ok", True)
        self.result = kw.pop("result", "int")
        self.props = kw.pop("props", [])  # property ids this contract serves
        self.notes = kw.pop("notes", "")
        self.extra = kw

    def clauses(self, which):
        out = []
        for c in getattr(self, which):
            if isinstance(c, str):
                out.append(("", c, ()))
            elif len(c) == 2:
                out.append((c[0], c[1], ()))
            else:
                out.append((c[0], c[1], tuple(c[2])))
        return out


class Registry:
    def __init__(self):
        self.contracts = {}
        self.macros = {}  # name -> (params, ast expr)
        self.interfaces = {}
        self.sources = {}
        self.assumptions = []

    def contract(self, qualname, variant=None, **kw):
        """variant: a second contract of the same function (e.g. under a stronger assumption on an indirect callee)"""
        key = qualname + ("#" + variant if variant else "")
        c = Contract(key, **kw)
        c.function = qualname
        self.contracts[key] = c
        return c

    def interface(self, name, **kw):
        c = Contract("iface:" + name, **kw)
        self.interfaces[name] = c
        return c

    def axiom(self, sig, body, text):
        """a trusted axiom schema of the specification layer: usable only through hints (axiom_<name>(...)), reported as an assumption"""
        self.define(sig, body)
        name = sig.split("(")[0].strip()
        if not name.startswith("axiom_"):
            raise ValueError("axiom schemas are named axiom_*")
        if not hasattr(self, "axioms"):
            self.axioms = {}
        self.axioms[name] = text
        self.assume(text)

    def define(self, sig, body):
        """define('inbox(t, D, n)', 'forall(k, 0, n, ...)')"""
        call = ast.parse(sig, mode="eval").body
        name = call.func.id
        params = [a.id for a in call.args]
        self.macros[name] = (params, ast.parse(body.strip(), mode="eval").body)

    def assume(self, text):
        self.assumptions.append(text)

    def load_dir(self, path):
        for f in sorted(glob.glob(os.path.join(path, "*.py"))):
            text = open(f).read()
            self.sources[os.path.basename(f)] = hashlib.sha256(text.encode()).hexdigest()
            ns = {"contract": self.contract, "define": self.define, "interface": self.interface, "assume": self.assume, "axiom": self.axiom, "REG": self}
            exec(compile(text, f, "exec"), ns)
        return self

    def sha(self):
        return hashlib.sha256("".join(f"{k}:{v}" for k, v in sorted(self.sources.items())).encode()).hexdigest()
