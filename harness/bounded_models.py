"""Bounded stand-in for C20: shipped models solved by the REAL solver on small instances; every solution checked by an independent
definition-level validator; counts compared with brute force / the literature where small enough. run(arg, pid, tier, seed)."""
import itertools
import math
import signal
import time

from nucs.heuristics.heuristics import *  # noqa
from nucs.solvers.backtrack_solver import BacktrackSolver
from nucs.solvers.consistency_algorithms import CONSISTENCY_ALG_BC, CONSISTENCY_ALG_SHAVING


class Timeout(Exception):
    pass


def _alarm(*_a):
    raise Timeout()


def guarded(f, secs):
    signal.signal(signal.SIGALRM, _alarm)
    signal.setitimer(signal.ITIMER_REAL, secs)
    try:
        return f()
    finally:
        signal.setitimer(signal.ITIMER_REAL, 0)


def find_all(problem, **kw):
    return [[int(v) for v in s] for s in BacktrackSolver(problem, log_level="ERROR", **kw).find_all()]


# ------------------------------------------------------------------ validators (from the problem definitions, not from the models)
def v_queens(n, s):
    q = s[:n]
    return sorted(q) == list(range(n)) and all(abs(q[i] - q[j]) != j - i for i in range(n) for j in range(i + 1, n))


def v_magic_sequence(n, s):
    return all(s[i] == sum(1 for x in s[:n] if x == i) for i in range(n))


def v_magic_square(n, s):
    g = [s[i * n:(i + 1) * n] for i in range(n)]
    m = n * (n * n - 1) // 2
    return sorted(s[:n * n]) == list(range(n * n)) and all(sum(r) == m for r in g) and all(sum(g[i][j] for i in range(n)) == m for j in range(n)) \
        and sum(g[i][i] for i in range(n)) == m and sum(g[i][n - 1 - i] for i in range(n)) == m


def v_latin(n, s, colors=None):
    colors = colors or list(range(n))
    g = [s[i * n:(i + 1) * n] for i in range(n)]
    return all(sorted(r) == sorted(colors) for r in g) and all(sorted(g[i][j] for i in range(n)) == sorted(colors) for j in range(n))


def v_sudoku(s, givens):
    g = [s[i * 9:(i + 1) * 9] for i in range(9)]
    ok = v_latin(9, s, list(range(1, 10)))
    ok = ok and all(sorted(g[3 * a + i][3 * b + j] for i in range(3) for j in range(3)) == list(range(1, 10)) for a in range(3) for b in range(3))
    return ok and all(givens[i][j] in (0, g[i][j]) for i in range(9) for j in range(9))


def v_circuit(n, s):
    seen, j = set(), 0
    for _ in range(n):
        j = s[j]
        seen.add(j)
    return sorted(s[:n]) == list(range(n)) and len(seen) == n


def v_golomb(marks):
    d = [b - a for a, b in itertools.combinations(marks, 2)]
    return len(set(d)) == len(d) and marks == sorted(marks)


def v_schur(n, s):
    col = [[k for k in range(3) if s[3 * x + k] == 1] for x in range(n)]
    if any(len(c) != 1 for c in col):
        return False
    c = [x[0] for x in col]
    return all(not (c[x - 1] == c[y - 1] == c[x + y - 1]) for x in range(1, n + 1) for y in range(1, n + 1) if x + y <= n)


def v_qg5(n, s):
    g = [s[i * n:(i + 1) * n] for i in range(n)]  # a*b = g[a][b]
    if not v_latin(n, s[:n * n]) or any(g[i][i] != i for i in range(n)):
        return False
    return all(g[g[g[b][a]][b]][b] == a for a in range(n) for b in range(n))


def v_bibd(v, b, r, k, l, s):
    m = [s[i * b:(i + 1) * b] for i in range(v)]
    return all(x in (0, 1) for x in s[:v * b]) and all(sum(row) == r for row in m) and all(sum(m[i][j] for i in range(v)) == k for j in range(b)) \
        and all(sum(m[i1][j] * m[i2][j] for j in range(b)) == l for i1 in range(v) for i2 in range(i1 + 1, v))


def run(arg, pid, tier, seed):
    from nucs.examples.queens.queens_problem import QueensProblem
    from nucs.examples.magic_sequence.magic_sequence_problem import MagicSequenceProblem
    from nucs.examples.magic_square.magic_square_problem import MagicSquareProblem
    from nucs.examples.schur_lemma.schur_lemma_problem import SchurLemmaProblem
    from nucs.examples.quasigroup.quasigroup_problem import Quasigroup5Problem
    from nucs.examples.knapsack.knapsack_problem import KnapsackProblem
    from nucs.examples.tsp.tsp_problem import TSPProblem
    from nucs.examples.bibd.bibd_problem import BIBDProblem
    from nucs.examples.donald.donald_problem import DonaldProblem
    from nucs.examples.sudoku.sudoku_problem import SudokuProblem
    from nucs.examples.golomb.golomb_problem import GolombProblem, golomb_consistency_algorithm
    from nucs.problems.circuit_problem import CircuitProblem
    from nucs.problems.latin_square_problem import LatinSquareProblem, LatinSquareRCProblem
    from nucs.solvers.consistency_algorithms import register_consistency_algorithm

    big = tier == "thorough"
    ev = nontriv = 0
    viol, samples = [], []
    t_end = time.time() + (240 if not big else 2400)

    def report(model, inst, detail):
        if len(viol) < 10:
            viol.append(dict(clause="C20." + model, instance=inst, detail=detail))

    def check_all(model, inst, problem, validator, expected=None, configs=((CONSISTENCY_ALG_BC, 0),), secs=60, **kw):
        nonlocal ev, nontriv
        for ca, dh in configs:
            if time.time() > t_end:
                return
            ev += 1
            try:
                ss = guarded(lambda: find_all(problem(), consistency_alg_idx=ca, dom_heuristic_idx=dh, **kw), secs)
            except Timeout:
                continue
            except Exception as e:  # noqa
                report(model, inst, f"{type(e).__name__}: {e}")
                continue
            bad = [s for s in ss if not validator(s)]
            if bad:
                report(model, inst, f"solution {bad[0]} is not a valid {model}")
            if len(set(map(tuple, ss))) != len(ss):
                report(model, inst, "a solution is reported twice")
            if expected is not None and len(ss) != expected:
                report(model, inst, f"{len(ss)} solutions, expected {expected}")
            if ss:
                nontriv += 1
            if len(samples) < 4 and ss:
                samples.append(dict(model=model, instance=inst, solutions=len(ss), first=ss[0][:12]))

    cfgs = ((CONSISTENCY_ALG_BC, DOM_HEURISTIC_MIN_VALUE), (CONSISTENCY_ALG_SHAVING, DOM_HEURISTIC_MAX_VALUE), (CONSISTENCY_ALG_BC, DOM_HEURISTIC_MID_VALUE))
    queens_counts = {1: 1, 2: 0, 3: 0, 4: 2, 5: 10, 6: 4, 7: 40, 8: 92}
    for n in range(1, 8 if big else 7):
        check_all("queens", n, lambda n=n: QueensProblem(n), lambda s, n=n: v_queens(n, s), queens_counts[n], cfgs)
    for n in range(1, 9 if big else 8):
        exp = sum(1 for t in itertools.product(range(n + 1), repeat=n) if v_magic_sequence(n, list(t))) if n <= 6 else 1
        check_all("magic_sequence", n, lambda n=n: MagicSequenceProblem(n), lambda s, n=n: v_magic_sequence(n, s), exp, cfgs)
    check_all("magic_square", (3, False), lambda: MagicSquareProblem(3, False), lambda s: v_magic_square(3, s), 8, cfgs)
    check_all("magic_square", (3, True), lambda: MagicSquareProblem(3, True), lambda s: v_magic_square(3, s), 1, cfgs)
    latin_counts = {1: 1, 2: 2, 3: 12, 4: 576}
    for n in (1, 2, 3, 4) if big else (1, 2, 3):
        check_all("latin_square", n, lambda n=n: LatinSquareProblem(list(range(n))), lambda s, n=n: v_latin(n, s), latin_counts[n], cfgs[:2])
        check_all("latin_square_rc", n, lambda n=n: LatinSquareRCProblem(n), lambda s, n=n: v_latin(n, s[:n * n]), latin_counts[n], cfgs[:1])
    # latin squares with givens (0-based colours: a given 0 is a given)
    for givens in ([[0, -1, -1], [-1, -1, -1], [-1, -1, -1]], [[1, -1, -1], [-1, 0, -1], [-1, -1, -1]], [[-1, 2, -1], [-1, -1, -1], [0, -1, -1]], [[-1, -1, 0], [0, -1, -1], [-1, -1, -1]]):
        def val(s, givens=givens):
            return v_latin(3, s) and all(givens[i][j] in (-1, s[i * 3 + j]) for i in range(3) for j in range(3))
        exp = sum(1 for t in itertools.product(range(3), repeat=9) if val(list(t)))
        check_all("latin_square_givens", givens, lambda g=givens: LatinSquareProblem([0, 1, 2], g), val, exp, cfgs[:1])
    for n in range(2, 7 if big else 6):
        check_all("circuit", n, lambda n=n: CircuitProblem(n), lambda s, n=n: v_circuit(n, s), math.factorial(n - 1), cfgs)
    for n in range(1, 8 if big else 6):
        exp = sum(1 for c in itertools.product(range(3), repeat=n) if all(not (c[x - 1] == c[y - 1] == c[x + y - 1]) for x in range(1, n + 1) for y in range(1, n + 1) if x + y <= n))
        check_all("schur_lemma", n, lambda n=n: SchurLemmaProblem(n, False), lambda s, n=n: v_schur(n, s), exp, cfgs[:2])
        check_all("schur_lemma_sb", n, lambda n=n: SchurLemmaProblem(n, True), lambda s, n=n: v_schur(n, s), None, cfgs[:1])
    for n in (3, 4, 5) if not big else (3, 4, 5, 6, 7):
        check_all("quasigroup5", n, lambda n=n: Quasigroup5Problem(n, False), lambda s, n=n: v_qg5(n, s), None, cfgs[:1], secs=120)
    check_all("bibd", (6, 10, 5, 3, 2), lambda: BIBDProblem(6, 10, 5, 3, 2), lambda s: v_bibd(6, 10, 5, 3, 2, s), None, cfgs[:1], secs=200)
    check_all("donald", 0, lambda: DonaldProblem(), lambda s: len(set(s[:10])) == 10, 1, cfgs[:1], secs=200,
              var_heuristic_idx=VAR_HEURISTIC_SMALLEST_DOMAIN)
    sudoku = [[0, 0, 0, 0, 0, 0, 0, 0, 0], [0, 0, 0, 0, 0, 3, 0, 8, 5], [0, 0, 1, 0, 2, 0, 0, 0, 0], [0, 0, 0, 5, 0, 7, 0, 0, 0], [0, 0, 4, 0, 0, 0, 1, 0, 0],
              [0, 9, 0, 0, 0, 0, 0, 0, 0], [5, 0, 0, 0, 0, 0, 0, 7, 3], [0, 0, 2, 0, 1, 0, 0, 0, 0], [0, 0, 0, 0, 4, 0, 0, 0, 9]]
    easy = [[5, 3, 0, 0, 7, 0, 0, 0, 0], [6, 0, 0, 1, 9, 5, 0, 0, 0], [0, 9, 8, 0, 0, 0, 0, 6, 0], [8, 0, 0, 0, 6, 0, 0, 0, 3], [4, 0, 0, 8, 0, 3, 0, 0, 1],
            [7, 0, 0, 0, 2, 0, 0, 0, 6], [0, 6, 0, 0, 0, 0, 2, 8, 0], [0, 0, 0, 4, 1, 9, 0, 0, 5], [0, 0, 0, 0, 8, 0, 0, 7, 9]]
    check_all("sudoku", "easy", lambda: SudokuProblem(easy), lambda s: v_sudoku(s, easy), 1, cfgs[:1], secs=200)
    if big:
        check_all("sudoku", "hard", lambda: SudokuProblem(sudoku), lambda s: v_sudoku(s, sudoku), 1, cfgs[:1], secs=600)
    # optimisation models against brute force
    for w, vol, cap in (([4, 3, 5, 2], [3, 2, 4, 1], 6), ([2, 2, 3], [2, 2, 3], 4), ([5, 4, 3, 2, 1], [4, 4, 2, 2, 1], 7)):
        ev += 1
        try:
            p = KnapsackProblem(w, vol, cap)
            r = guarded(lambda: BacktrackSolver(p, log_level="ERROR").maximize(p.weight), 60)
            best = max(sum(a * x for a, x in zip(w, t)) for t in itertools.product((0, 1), repeat=len(w)) if sum(a * x for a, x in zip(vol, t)) <= cap)
            if r is None or int(r[p.weight]) != best or sum(a * int(x) for a, x in zip(vol, r[:len(w)])) > cap:
                report("knapsack", (w, vol, cap), f"maximize returned {None if r is None else [int(x) for x in r]}, optimum {best}")
            else:
                nontriv += 1
        except Exception as e:  # noqa
            report("knapsack", (w, vol, cap), f"{type(e).__name__}: {e}")
    for costs in ([[0, 2, 1, 2], [2, 0, 2, 1], [1, 2, 0, 2], [2, 1, 2, 0]], [[0, 3, 4, 2, 7], [3, 0, 4, 6, 3], [4, 4, 0, 5, 8], [2, 6, 5, 0, 6], [7, 3, 8, 6, 0]]):
        ev += 1
        n = len(costs)
        try:
            p = TSPProblem(costs)
            r = guarded(lambda: BacktrackSolver(p, decision_domains=list(range(n)), log_level="ERROR").minimize(p.shr_domain_nb - 1), 120)
            best = min(sum(costs[i][t[i]] for i in range(n)) for t in itertools.permutations(range(n)) if v_circuit(n, list(t)))
            if r is None or int(r[-1]) != best or not v_circuit(n, [int(x) for x in r[:n]]) or sum(costs[i][int(r[i])] for i in range(n)) != best:
                report("tsp", costs, f"minimize returned {None if r is None else [int(x) for x in r]}, optimum {best}")
            else:
                nontriv += 1
        except Exception as e:  # noqa
            report("tsp", costs, f"{type(e).__name__}: {e}")
    alg = register_consistency_algorithm(golomb_consistency_algorithm)
    for marks, length in ((4, 6), (5, 11), (6, 17)) if not big else ((4, 6), (5, 11), (6, 17), (7, 25)):
        ev += 1
        try:
            p = GolombProblem(marks)
            r = guarded(lambda: BacktrackSolver(p, consistency_alg_idx=alg, log_level="ERROR").minimize(p.length_idx), 300)
            if r is None or int(r[p.length_idx]) != length:
                report("golomb", marks, f"minimize returned length {None if r is None else int(r[p.length_idx])}, known optimum {length}")
            else:
                ms = [0] + [int(r[k]) for k in range(marks - 1)]
                if not v_golomb(ms) or ms[-1] != length:
                    report("golomb", marks, f"marks {ms} are not a Golomb ruler of length {length}")
                else:
                    nontriv += 1
        except Timeout:
            pass
        except Exception as e:  # noqa
            report("golomb", marks, f"{type(e).__name__}: {e}")
    return dict(suite="models:" + arg, evaluations=ev, distinct_nontrivial=nontriv, violations=viol, samples=samples,
                rule="shipped models at small instance sizes under BC / shaving / mid-value configurations; every solution validated against the problem definition; "
                     "counts against brute force (magic sequence, Schur) or the literature (queens, latin squares, circuits, magic square 3); non-trivial = instance with at least one solution",
                scope="queens<=7, magic_sequence<=8, magic_square 3, latin<=4 (+givens), circuit<=6, schur<=7, QG5<=7, BIBD(6,10,5,3,2), donald, sudoku, knapsack x3, tsp x2, golomb<=7")
