"""Bounded stand-in for the engine-level properties: small random/enumerated problems solved by the REAL solver under every
configuration and compared with brute force. run(arg, pid, tier, seed)."""
import itertools
import os
import random
import signal
import sys
import time

import numpy as np

from spec.relations_py import RELATIONS

from nucs.constants import *  # noqa
from nucs.heuristics.heuristics import *  # noqa
from nucs.problems.problem import Problem
from nucs.propagators.propagators import *  # noqa
from nucs.solvers.backtrack_solver import BacktrackSolver
from nucs.solvers.consistency_algorithms import CONSISTENCY_ALG_BC, CONSISTENCY_ALG_SHAVING, CONSISTENCY_ALG_FCTS


from harness.watchdog import Timeout, guarded as _guarded  # wall-clock trigger + deterministic confirmation (load-independent verdicts)


def guarded(f, secs=5.0):
    return _guarded(f, secs, steps=6_000_000)


ALGS = {"no_sub_cycle": ALG_NO_SUB_CYCLE, "scc": ALG_SCC, "affine_eq": ALG_AFFINE_EQ, "affine_geq": ALG_AFFINE_GEQ, "affine_leq": ALG_AFFINE_LEQ, "alldifferent": ALG_ALLDIFFERENT, "max_eq": ALG_MAX_EQ,
        "max_leq": ALG_MAX_LEQ, "min_eq": ALG_MIN_EQ, "min_geq": ALG_MIN_GEQ, "exactly_eq": ALG_EXACTLY_EQ, "count_eq": ALG_COUNT_EQ,
        "element_iv": ALG_ELEMENT_IV, "element_lic": ALG_ELEMENT_LIC, "element_liv": ALG_ELEMENT_LIV, "lexicographic_leq": ALG_LEXICOGRAPHIC_LEQ,
        "relation": ALG_RELATION, "dummy": ALG_DUMMY}


def random_problem(rng, allow_alias=True):
    if rng.random() < 0.12:
        # circuit-style model: successor variables, alldifferent + no_sub_cycle (+ scc), optionally one fixed arc
        n = rng.choice([3, 4, 4, 5])
        doms = [(0, n - 1)] * n
        if rng.random() < 0.5:
            k = rng.randrange(n)
            v = rng.randrange(n)
            doms = [d if i != k else (v, v) for i, d in enumerate(doms)]
        cons = [(list(range(n)), "alldifferent", []), (list(range(n)), "no_sub_cycle", [])]
        if rng.random() < 0.5:
            cons.append((list(range(n)), "scc", []))
        return dict(doms=doms, idx=list(range(n)), off=[0] * n, cons=cons)
    if rng.random() < 0.10:
        # linear equalities with non-unit coefficients on wider domains: one round of interval reasoning is not idempotent there
        D = rng.choice([2, 2, 3])
        doms = [(lo, lo + rng.randint(3, 6)) for lo in (rng.randint(-1, 1) for _ in range(D))]
        cons = []
        for _ in range(rng.choice([1, 1, 2])):
            n = rng.choice([2, 2, 3]) if D >= 3 else 2
            vs = rng.sample(range(D), n)
            cs = [rng.choice([-3, -2, 2, 3, 1]) for _ in range(n)]
            point = [rng.randint(doms[v][0], doms[v][1]) for v in vs]
            cons.append((vs, "affine_eq", cs + [sum(c * x for c, x in zip(cs, point)) + rng.choice([0, 0, 0, 1])]))
        if rng.random() < 0.3:
            cons = []  # only constraints that watch one bound per variable
        if rng.random() < 0.5 or not cons:
            vs = rng.sample(range(D), 2)
            cons.append((vs, rng.choice(["affine_leq", "affine_geq"]), [rng.choice([1, 1, 2, -1]), rng.choice([1, 1, -1]), rng.randint(0, 9)]))
        return dict(doms=doms, idx=list(range(D)), off=[0] * D, cons=cons)
    D = rng.choice([1, 2, 2, 3, 3])
    doms = []
    for _ in range(D):
        lo = rng.randint(-1, 1)
        doms.append((lo, lo + rng.randint(0, 3)))
    V = D + (rng.choice([0, 0, 1, 2]) if allow_alias else 0)
    idx = list(range(D)) + [rng.randrange(D) for _ in range(V - D)]
    off = [0] * D + [rng.randint(-2, 2) for _ in range(V - D)]
    cons = []
    for _ in range(rng.choice([1, 1, 2, 2, 3])):
        name = rng.choice(["affine_eq", "affine_geq", "affine_leq", "affine_leq", "alldifferent", "max_eq", "max_leq", "min_eq", "min_geq", "exactly_eq", "count_eq",
                           "element_iv", "element_lic", "element_liv", "lexicographic_leq", "relation", "dummy"])
        if name in ("affine_eq", "affine_geq", "affine_leq"):
            n = rng.randint(1, min(3, V))
            vs = [rng.randrange(V) for _ in range(n)]
            params = [rng.randint(-2, 2) for _ in range(n)] + [rng.randint(-3, 4)]
        elif name == "alldifferent":
            n = rng.randint(1, min(3, V))
            vs, params = rng.sample(range(V), n), []
        elif name in ("max_eq", "max_leq", "min_eq", "min_geq"):
            n = rng.randint(2, 3)
            vs, params = [rng.randrange(V) for _ in range(n)], []
        elif name == "exactly_eq":
            n = rng.randint(1, 3)
            vs, params = [rng.randrange(V) for _ in range(n)], [rng.randint(-1, 2), rng.randint(0, n)]
        elif name == "count_eq":
            n = rng.randint(2, 3)
            vs, params = [rng.randrange(V) for _ in range(n)], [rng.randint(-1, 2)]
        elif name == "element_iv":
            vs, params = [rng.randrange(V), rng.randrange(V)], [rng.randint(-1, 2) for _ in range(rng.randint(1, 3))]
        elif name == "element_lic":
            n = rng.randint(2, 3)
            vs, params = [rng.randrange(V) for _ in range(n)], [rng.randint(-1, 2)]
        elif name == "element_liv":
            n = rng.randint(3, 4)
            vs, params = [rng.randrange(V) for _ in range(n)], []
        elif name == "lexicographic_leq":
            p = rng.randint(1, 2)
            vs, params = [rng.randrange(V) for _ in range(2 * p)], []
        elif name == "relation":
            n = rng.randint(1, 2)
            vs = [rng.randrange(V) for _ in range(n)]
            params = [rng.randint(-1, 2) for _ in range(n * rng.randint(1, 3))]
        else:
            vs, params = [rng.randrange(V)], []
        cons.append((vs, name, params))
    return dict(doms=doms, idx=idx, off=off, cons=cons)


# directed shapes that the random generator reaches rarely: non-idempotent linear equalities on wide domains, constraints watching one bound per
# variable on wide domains (three-way value splits, shaving probes), entailment of one constraint followed by an optimisation restart
CORPUS = [
    dict(doms=[(1, 6), (0, 4)], idx=[0, 1], off=[0, 0], cons=[([0, 1], "affine_eq", [2, 3, 13])]),
    dict(doms=[(0, 9), (0, 9)], idx=[0, 1], off=[0, 0], cons=[([0, 1], "affine_eq", [3, -2, 1])]),
    dict(doms=[(0, 9), (0, 9), (0, 5)], idx=[0, 1, 2], off=[0, 0, 0], cons=[([0, 1], "affine_eq", [3, -2, 1]), ([1, 2], "affine_leq", [1, 1, 9])]),
    dict(doms=[(0, 6), (0, 6), (0, 6)], idx=[0, 1, 2], off=[0, 0, 0], cons=[([0, 1, 2], "affine_eq", [2, -3, 2, 5])]),
    dict(doms=[(0, 2), (0, 3)], idx=[0, 1], off=[0, 0], cons=[([0, 1], "affine_leq", [1, 2, 2]), ([0, 1], "affine_geq", [1, 1, 2])]),
    dict(doms=[(0, 4), (0, 2)], idx=[0, 1], off=[0, 0], cons=[([0, 1], "affine_geq", [1, 1, 4])]),
    dict(doms=[(0, 4), (0, 4)], idx=[0, 1], off=[0, 0], cons=[([0, 1], "affine_leq", [1, 1, 3])]),
    dict(doms=[(0, 3), (0, 5)], idx=[0, 1], off=[0, 0], cons=[([0, 1], "affine_leq", [1, -1, 0])]),
    dict(doms=[(0, 3), (0, 5)], idx=[0, 1], off=[0, 0], cons=[([0, 1], "affine_leq", [1, -1, 0]), ([1, 0], "affine_leq", [1, -1, 3])]),
    dict(doms=[(0, 4), (0, 4), (0, 4)], idx=[0, 1, 2], off=[0, 0, 0], cons=[([0, 1, 2], "max_leq", []), ([0, 1, 2], "min_geq", [])]),
    # (the first len(doms) variables are the shared domains themselves, as in random_problem: the C13 'unshare' rewriting relies on it)
    dict(doms=[(0, 5), (2, 6)], idx=[0, 1, 0, 1], off=[0, 0, 2, -3], cons=[([2, 3], "affine_geq", [1, 1, 2]), ([0, 1], "affine_leq", [1, 1, 7])]),
]


def build(pb, order=None):
    p = Problem([tuple(d) for d in pb["doms"]], list(pb["idx"]), list(pb["off"]))
    cons = pb["cons"] if order is None else [pb["cons"][k] for k in order]
    for vs, name, params in cons:
        p.add_propagator((list(vs), ALGS[name], list(params)))
    return p


def brute(pb):
    out = []
    for sh in itertools.product(*[range(a, b + 1) for a, b in pb["doms"]]):
        x = [sh[i] + o for i, o in zip(pb["idx"], pb["off"])]
        if all(RELATIONS[name](tuple(x[v] for v in vs), params) for vs, name, params in pb["cons"]):
            out.append(tuple(x))
    return sorted(out)


CONFIGS = [(ca, vh, dh) for ca in (CONSISTENCY_ALG_BC, CONSISTENCY_ALG_SHAVING)
           for vh in (VAR_HEURISTIC_FIRST_NOT_INSTANTIATED, VAR_HEURISTIC_SMALLEST_DOMAIN, VAR_HEURISTIC_GREATEST_DOMAIN)
           for dh in (DOM_HEURISTIC_MIN_VALUE, DOM_HEURISTIC_MAX_VALUE, DOM_HEURISTIC_SPLIT_LOW, DOM_HEURISTIC_MID_VALUE)]


def solver(pb, cfg, order=None, height=64):
    ca, vh, dh = cfg
    return BacktrackSolver(build(pb, order), consistency_alg_idx=ca, var_heuristic_idx=vh, dom_heuristic_idx=dh, stack_max_height=height, log_level="ERROR")


def sols(s):
    return sorted(tuple(int(v) for v in x) for x in s.find_all())


def check_stats(st, exhaustive_bc):
    bad = []
    if st["PROPAGATOR_FILTER_NB"] < st["PROPAGATOR_ENTAILMENT_NB"] or st["PROPAGATOR_FILTER_NB"] < st["PROPAGATOR_INCONSISTENCY_NB"] + st["PROPAGATOR_FILTER_NO_CHANGE_NB"]:
        bad.append("filter calls < outcomes")
    if exhaustive_bc and st["ALG_BC_NB"] != 1 + st["SOLVER_CHOICE_NB"] + st["SOLVER_BACKTRACK_NB"]:
        bad.append(f"BC passes {st['ALG_BC_NB']} != 1 + choices {st['SOLVER_CHOICE_NB']} + backtracks {st['SOLVER_BACKTRACK_NB']}")
    if st["ALG_SHAVING_NB"] != st["ALG_SHAVING_CHANGE_NB"] + st["ALG_SHAVING_NO_CHANGE_NB"]:
        bad.append("shaving attempts != change + no change")
    return bad


FIX_VIOL = []


def install_fixpoint_monitor():
    """C08: after every non-failing consistency pass re-execute each enabled propagator on the resulting domains"""
    import nucs.solvers.consistency_algorithms as ca
    from nucs.propagators.propagators import COMPUTE_DOMAINS_FCTS

    def wrap(orig):
        def alg(statistics, algorithms, var_bounds, param_bounds, dom_indices_arr, dom_offsets_arr, props_dom_indices, props_dom_offsets, props_parameters,
                triggers, shr_domains_stack, not_entailed_propagators_stack, dom_update_stack, stacks_top, triggered_propagators, compute_domains_addrs, decision_domains):
            top = int(stacks_top[0])
            before = shr_domains_stack[top].copy()
            st = orig(statistics, algorithms, var_bounds, param_bounds, dom_indices_arr, dom_offsets_arr, props_dom_indices, props_dom_offsets, props_parameters,
                      triggers, shr_domains_stack, not_entailed_propagators_stack, dom_update_stack, stacks_top, triggered_propagators, compute_domains_addrs, decision_domains)
            if st != PROBLEM_INCONSISTENT:
                after = shr_domains_stack[int(stacks_top[0])]
                if int(stacks_top[0]) != top:
                    FIX_VIOL.append(("C08.height", "stack height changed by the pass"))
                if (after[:, 0] < before[:, 0]).any() or (after[:, 1] > before[:, 1]).any() or (after[:, 0] > after[:, 1]).any():
                    FIX_VIOL.append(("C08.shrink", f"{before.tolist()} -> {after.tolist()}"))
                for p in range(len(algorithms)):
                    if not not_entailed_propagators_stack[top, p]:
                        continue
                    s, e = int(var_bounds[p, 0]), int(var_bounds[p, 1])
                    dom = after[props_dom_indices[s:e]] + props_dom_offsets[s:e]
                    d2 = dom.copy()
                    r = COMPUTE_DOMAINS_FCTS[algorithms[p]](d2, props_parameters[int(param_bounds[p, 0]):int(param_bounds[p, 1])])
                    if r == PROP_INCONSISTENCY:
                        FIX_VIOL.append(("C08.fixpoint_fail", f"propagator {p} (alg {int(algorithms[p])}) fails when re-executed on {dom.tolist()}"))
                    elif (d2 != dom).any() and int(algorithms[p]) != ALG_NO_SUB_CYCLE:
                        FIX_VIOL.append(("C08.fixpoint_change", f"propagator {p} (alg {int(algorithms[p])}) still prunes {dom.tolist()} -> {d2.tolist()}"))
            return st
        return alg

    for k in range(len(ca.CONSISTENCY_ALG_FCTS)):
        ca.CONSISTENCY_ALG_FCTS[k] = wrap(ca.CONSISTENCY_ALG_FCTS[k])
    # the propagation passes nested in shaving (probe levels) are passes too: the module-level name is what shave_bound / the shaving loop call
    import nucs.solvers.shaving_consistency_algorithm as sh
    if hasattr(sh, "bound_consistency_algorithm"):
        sh.bound_consistency_algorithm = wrap(sh.bound_consistency_algorithm)


SHAVE_VIOL = []


def install_shaving_monitor():
    """C10: every shaving pass is compared with a plain bound-consistency pass started from a copy of the same state:
    'the domains it returns are contained in those plain bound consistency returns', same height, never consistent where plain BC fails"""
    import nucs.solvers.consistency_algorithms as ca
    from nucs.solvers.bound_consistency_algorithm import bound_consistency_algorithm as plain_bc

    def wrap(orig):
        def alg(statistics, algorithms, var_bounds, param_bounds, dom_indices_arr, dom_offsets_arr, props_dom_indices, props_dom_offsets, props_parameters,
                triggers, shr_domains_stack, not_entailed_propagators_stack, dom_update_stack, stacks_top, triggered_propagators, compute_domains_addrs, decision_domains):
            top = int(stacks_top[0])
            c = [a.copy() for a in (statistics, shr_domains_stack, not_entailed_propagators_stack, dom_update_stack, stacks_top, triggered_propagators)]
            ref = plain_bc(c[0], algorithms, var_bounds, param_bounds, dom_indices_arr, dom_offsets_arr, props_dom_indices, props_dom_offsets, props_parameters,
                           triggers, c[1], c[2], c[3], c[4], c[5], compute_domains_addrs, decision_domains)
            st = orig(statistics, algorithms, var_bounds, param_bounds, dom_indices_arr, dom_offsets_arr, props_dom_indices, props_dom_offsets, props_parameters,
                      triggers, shr_domains_stack, not_entailed_propagators_stack, dom_update_stack, stacks_top, triggered_propagators, compute_domains_addrs, decision_domains)
            if int(stacks_top[0]) != top:
                SHAVE_VIOL.append(("C10.height", f"stack height {top} -> {int(stacks_top[0])}"))
            if ref == PROBLEM_INCONSISTENT and st != PROBLEM_INCONSISTENT:
                SHAVE_VIOL.append(("C10.weaker", "plain bound consistency fails on this state, shaving reports it consistent"))
            if ref != PROBLEM_INCONSISTENT and st != PROBLEM_INCONSISTENT:
                a, b = shr_domains_stack[top], c[1][top]
                if (a[:, 0] < b[:, 0]).any() or (a[:, 1] > b[:, 1]).any():
                    SHAVE_VIOL.append(("C10.weaker", f"shaving returns {a.tolist()}, plain bound consistency {b.tolist()}"))
                if ref == PROBLEM_BOUND and st != PROBLEM_BOUND:
                    SHAVE_VIOL.append(("C10.weaker", "plain bound consistency reports a solved state, shaving an open one"))
            return st
        return alg

    ca.CONSISTENCY_ALG_FCTS[CONSISTENCY_ALG_SHAVING] = wrap(ca.CONSISTENCY_ALG_FCTS[CONSISTENCY_ALG_SHAVING])


OBS = dict(depth=0, calls=0, entailed=0, failed=0)


def install_stats_monitor():
    """C17: observe what actually happens (propagator executions and their outcomes, deepest stack level) to compare with the statistics"""
    from nucs.propagators.propagators import COMPUTE_DOMAINS_FCTS
    from nucs.heuristics.heuristics import DOM_HEURISTIC_FCTS

    def wrap_prop(f):
        def g(domains, parameters):
            r = f(domains, parameters)
            OBS["calls"] += 1
            OBS["entailed"] += int(r == PROP_ENTAILMENT)
            OBS["failed"] += int(r == PROP_INCONSISTENCY)
            return r
        return g

    def wrap_heur(f):
        def g(params, shr_domains_stack, not_entailed_propagators_stack, dom_update_stack, stacks_top, dom_idx):
            r = f(params, shr_domains_stack, not_entailed_propagators_stack, dom_update_stack, stacks_top, dom_idx)
            OBS["depth"] = max(OBS["depth"], int(stacks_top[0]))
            return r
        return g

    for k in range(len(COMPUTE_DOMAINS_FCTS)):
        COMPUTE_DOMAINS_FCTS[k] = wrap_prop(COMPUTE_DOMAINS_FCTS[k])
    for k in range(len(DOM_HEURISTIC_FCTS)):
        DOM_HEURISTIC_FCTS[k] = wrap_heur(DOM_HEURISTIC_FCTS[k])


def run(arg, pid, tier, seed):
    if pid == "C17":
        install_stats_monitor()
    if pid == "C08":
        install_fixpoint_monitor()
    if pid == "C10":
        install_shaving_monitor()
    rng = random.Random(seed * 7919 + 17)
    n_problems = 120 if tier == "quick" else 1500
    t_end = time.time() + (150 if tier == "quick" else 2400)
    ev = nontriv = 0
    viol, samples, seen = [], [], set()

    def report(clause, pb, cfg, detail):
        if len(viol) < 8:
            viol.append(dict(clause=clause, problem=pb, config=list(cfg) if cfg else None, detail=detail))

    for k in range(n_problems):
        if time.time() > t_end:
            break
        pb = CORPUS[k] if k < len(CORPUS) else random_problem(rng)
        key = repr(pb)
        if key in seen:
            continue
        seen.add(key)
        ref = brute(pb)
        if ref and len(ref) < np.prod([b - a + 1 for a, b in pb["doms"]]):
            nontriv += 1
        if len(samples) < 3:
            samples.append(dict(problem=pb, solutions=len(ref)))
        cfgs = CONFIGS if pid in ("C02", "C01", "C10", "C04", "C08") else CONFIGS[:: 5]
        for cfg in cfgs:
            ev += 1
            OBS.update(depth=0, calls=0, entailed=0, failed=0)
            try:
                _s = [None]

                def enumerate_all(cfg=cfg):
                    _s[0] = solver(pb, cfg)  # a fresh solver: the watchdog may run this twice
                    return sols(_s[0])

                got = guarded(enumerate_all)
                s = _s[0]
            except Timeout:
                if pid in ("C04",):
                    report("C04.termination", pb, cfg, "find_all did not return within 5s")
                continue
            except Exception as e:  # noqa
                if pid in ("C16", "C01", "C02", "C04", "C19"):
                    report(f"{pid}.exception", pb, cfg, f"{type(e).__name__}: {e}")
                continue
            if pid == "C08" and FIX_VIOL:
                c, d = FIX_VIOL[0]
                report(c, pb, cfg, d)
                del FIX_VIOL[:]
            if pid == "C01":
                bad = [x for x in got if x not in set(ref)]
                if bad:
                    report("C01.solution", pb, cfg, f"reported {bad[0]} which is not a solution")
            if pid in ("C02", "C10", "C13"):
                if got != ref:
                    report(f"{pid}.multiset", pb, cfg, f"solver {got[:6]}... ({len(got)}) vs brute force ({len(ref)})")
            if pid == "C17":
                st = s.get_statistics()
                for b in check_stats(st, cfg[0] == CONSISTENCY_ALG_BC):
                    report("C17." + b.split()[0], pb, cfg, b)
                if st["SOLVER_SOLUTION_NB"] != len(got):
                    report("C17.solutions", pb, cfg, f"SOLUTION_NB {st['SOLVER_SOLUTION_NB']} != delivered {len(got)}")
                if st["PROPAGATOR_FILTER_NB"] != OBS["calls"]:
                    report("C17.filter", pb, cfg, f"FILTER_NB {st['PROPAGATOR_FILTER_NB']} != {OBS['calls']} constraint executions")
                if st["PROPAGATOR_ENTAILMENT_NB"] != OBS["entailed"]:
                    report("C17.entailment", pb, cfg, f"ENTAILMENT_NB {st['PROPAGATOR_ENTAILMENT_NB']} != {OBS['entailed']} executions answering entailed")
                if st["PROPAGATOR_INCONSISTENCY_NB"] < OBS["failed"] or (OBS["failed"] == 0 and cfg[0] == CONSISTENCY_ALG_BC and st["PROPAGATOR_INCONSISTENCY_NB"] > st["SOLVER_BACKTRACK_NB"] + 1):
                    report("C17.inconsistency", pb, cfg, f"INCONSISTENCY_NB {st['PROPAGATOR_INCONSISTENCY_NB']} vs {OBS['failed']} executions answering inconsistent")
                if st["SOLVER_CHOICE_DEPTH"] != OBS["depth"]:
                    report("C17.depth", pb, cfg, f"CHOICE_DEPTH {st['SOLVER_CHOICE_DEPTH']} != deepest stack level reached {OBS['depth']}")
            if pid == "C10" and SHAVE_VIOL:
                c, d = SHAVE_VIOL[0]
                report(c, pb, cfg, d)
                del SHAVE_VIOL[:]
            if pid == "C10" and int(s.stacks_top[0]) != 0:
                report("C10.height", pb, cfg, f"stack height {int(s.stacks_top[0])} after exhaustive enumeration")
            if pid == "C10" and cfg[0] != CONSISTENCY_ALG_BC:
                # small choice-point stacks reach the states where shaving has no free level for a probe; only the pass monitor judges these runs
                # (an overflow of the search itself is a resource matter: shaving changes the shape of the tree, so it is not compared with plain BC)
                for h in (3, 4, 5):
                    ev += 1
                    try:
                        guarded(lambda: sols(solver(pb, cfg, height=h)))
                    except Exception:  # noqa
                        pass
                    if SHAVE_VIOL:
                        c, d = SHAVE_VIOL[0]
                        report(c, pb, cfg, f"stack_max_height={h}: {d}")
                        del SHAVE_VIOL[:]
        if pid == "C01":
            # what minimize / maximize return is a solution too (the restart between two improvements re-arms the whole engine state)
            for v in range(len(pb["idx"])):
                for cfg in CONFIGS[:: 7]:
                    for mode in ("minimize", "maximize"):
                        ev += 1
                        try:
                            r = guarded(lambda: getattr(solver(pb, cfg), mode)(v))
                        except Exception:  # noqa  (termination / exceptions are C03, C04, C16)
                            continue
                        if r is not None and tuple(int(a) for a in r) not in set(ref):
                            report("C01.optimum_not_solution", pb, cfg, f"{mode}({v}) returned {[int(a) for a in r]} which is not a solution")
        if pid == "C03":
            for v in range(len(pb["idx"])):
                for cfg in CONFIGS[:: 7]:
                    for mode in ("minimize", "maximize"):
                        ev += 1
                        try:
                            r = guarded(lambda: getattr(solver(pb, cfg), mode)(v))
                        except Timeout:
                            report("C03.termination", pb, cfg, f"{mode}({v}) did not return")
                            continue
                        except Exception as e:  # noqa
                            report("C03.exception", pb, cfg, f"{mode}({v}): {type(e).__name__}: {e}")
                            continue
                        if not ref:
                            if r is not None:
                                report("C03.infeasible", pb, cfg, f"{mode}({v}) returned {r} on an infeasible problem")
                        else:
                            best = (min if mode == "minimize" else max)(x[v] for x in ref)
                            if r is None or tuple(int(a) for a in r) not in set(ref) or int(r[v]) != best:
                                report("C03.optimum", pb, cfg, f"{mode}({v}) returned {None if r is None else [int(a) for a in r]}, optimum {best}")
        if pid in ("C13", "C02") and len(pb["cons"]) > 1:
            for order in list(itertools.permutations(range(len(pb["cons"]))))[1:3]:
                ev += 1
                try:
                    got = guarded(lambda: sols(solver(pb, CONFIGS[0], order)))
                    if got != ref:
                        report(f"{pid}.order", pb, CONFIGS[0], f"order {order}: {len(got)} solutions vs {len(ref)}")
                except Exception as e:  # noqa
                    report(f"{pid}.order", pb, CONFIGS[0], f"{type(e).__name__}")
        if pid == "C13":
            # duplicate a constraint, add an always-true one
            pb2 = dict(pb, cons=pb["cons"] + [pb["cons"][0], ([0], "dummy", [])])
            ev += 1
            try:
                got = guarded(lambda: sols(solver(pb2, CONFIGS[0])))
                if got != ref:
                    report("C13.duplicate", pb2, CONFIGS[0], f"{len(got)} vs {len(ref)}")
            except Exception as e:  # noqa
                report("C13.duplicate", pb2, CONFIGS[0], f"{type(e).__name__}")
            # shared domains with offsets -> separate variables linked by equality constraints
            D, V = len(pb["doms"]), len(pb["idx"])
            if V > D:
                doms2 = list(pb["doms"]) + [(pb["doms"][pb["idx"][v]][0] + pb["off"][v], pb["doms"][pb["idx"][v]][1] + pb["off"][v]) for v in range(D, V)]
                cons2 = list(pb["cons"]) + [([v, pb["idx"][v]], "affine_eq", [1, -1, pb["off"][v]]) for v in range(D, V)]
                pb3 = dict(doms=doms2, idx=list(range(V)), off=[0] * V, cons=cons2)
                ev += 1
                try:
                    got = guarded(lambda: sols(solver(pb3, CONFIGS[0])))
                    if got != ref:
                        report("C13.unshare", pb3, CONFIGS[0], f"{len(got)} vs {len(ref)} {got[:3]} {ref[:3]}")
                except Exception as e:  # noqa
                    report("C13.unshare", pb3, CONFIGS[0], f"{type(e).__name__}: {e}")
        if pid == "C12":
            for v in range(len(pb["idx"])):
                for kk in (1, 2, 3, 5):
                    ev += 1
                    try:
                        p0 = build(pb)
                        before = (repr(p0.shr_domains_lst), repr(p0.dom_indices_lst), repr(p0.dom_offsets_lst))
                        parts = p0.split(kk, v)
                        after = (repr(p0.shr_domains_lst), repr(p0.dom_indices_lst), repr(p0.dom_offsets_lst))
                        if before != after:
                            report("C12.self", pb, None, "split modified the original problem")
                        allsol = []
                        for q in parts:
                            allsol.extend(guarded(lambda: sols(BacktrackSolver(q, log_level="ERROR"))))
                        if sorted(allsol) != ref:
                            report("C12.partition", pb, None, f"split({kk},{v}): {len(allsol)} solutions in the parts vs {len(ref)}")
                    except Exception as e:  # noqa
                        report("C12.exception", pb, None, f"split({kk},{v}): {type(e).__name__}: {e}")
    return dict(suite="engine:" + arg, evaluations=ev, distinct_nontrivial=nontriv, violations=viol, samples=samples,
                rule="random small problems (<=3 shared domains of size <=4, aliased variables with offsets, 1-3 constraints of 17 types), every solver configuration, compared with brute force; "
                     "non-trivial = distinct problem whose solution set is neither empty nor the whole box",
                scope=f"{len(seen)} problems, seed {seed}")
