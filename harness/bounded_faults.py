"""Bounded stand-in for C18 (never counted as proved): the REAL get_message is run against deterministic stand-ins for the queue and the
worker processes (no OS processes, no wall-clock): a scripted clock advances by one at every Queue.get; worker w dies at time die[w]; a
message becomes available at time msg_at (or never). Run-time contract:
  * every Queue.get carries a timeout (never an unbounded wait);
  * the call returns a message or raises within `SLACK` queue polls after the first moment at which the queue is empty and an unfinished
    worker is dead (it must not keep polling: that is the hang of the property statement);
  * it does not raise while every unfinished worker is alive, and it never drops an available message.
Scenarios: 1..3 workers, every done-vector, every death time in 0..5 (or never) for one or two workers, message at 0..6 or never."""
import itertools
import queue as _queue
import sys

SLACK = 3


class Clock:
    def __init__(self):
        self.t = 0
        self.polls_after_fault = 0


class FakeQueue:
    def __init__(self, clock, msg_at, viol):
        self.clock, self.msg_at, self.viol, self.delivered = clock, msg_at, viol, False

    def get(self, block=True, timeout=None):
        if timeout is None or not block:
            self.viol.append("Queue.get without a timeout (or non-blocking busy loop)")
        self.clock.t += 1
        if self.msg_at is not None and self.clock.t > self.msg_at and not self.delivered:
            self.delivered = True
            return ("message", self.clock.t)
        if self.clock.t > 60:
            raise Hang()
        raise _queue.Empty()


class Hang(Exception):
    pass


class FakeProcess:
    def __init__(self, clock, die_at):
        self.clock, self.die_at = clock, die_at

    def is_alive(self):
        return self.die_at is None or self.clock.t < self.die_at


def interleavings(streams):
    """all merges of the per-worker message streams (each stream keeps its order)"""
    if all(not st for st in streams):
        yield []
        return
    for w, st in enumerate(streams):
        if st:
            rest = [x if i != w else x[1:] for i, x in enumerate(streams)]
            for tail in interleavings(rest):
                yield [st[0]] + tail


def run_reducers(arg, pid, tier, seed):
    """C11 stand-in: the REAL MultiprocessingSolver.solve / optimize reducers fed every interleaving of small well-formed worker streams
    through stand-ins for Process (never runs anything) and Queue (replays the scripted sequence)."""
    import logging
    import numpy as np
    from nucs.solvers import multiprocessing_solver as mps
    logging.disable(logging.CRITICAL)

    class ScriptQueue:
        script = []

        def __init__(self):
            self.items = list(ScriptQueue.script)

        def get(self, block=True, timeout=None):
            if not self.items:
                raise Hang()
            return self.items.pop(0)

    class NoProcess:
        def __init__(self, target=None, args=()):
            pass

        def start(self):
            pass

        def is_alive(self):
            return True

    class Stub:
        def __getattr__(self, name):
            return lambda *a, **k: None

    mps.Queue, mps.Process = ScriptQueue, NoProcess
    viol, ev, nontriv, samples = [], 0, 0, []
    vals = (0, 1, 2)
    per_worker = [()] + [(a,) for a in vals] + [(a, b) for a in vals for b in vals]
    for n in (1, 2, 3):
        for sols in itertools.product(per_worker if n < 3 else [(), (0,), (2,), (1, 0)], repeat=n):
            streams = []
            for w, vs in enumerate(sols):
                st = [(w, np.array([v, w]), np.full(13, 10 * w + i + 1)) for i, v in enumerate(vs)]
                st.append((w, None, np.full(13, 100 + w)))
                streams.append(st)
            allv = [v for vs in sols for v in vs]
            for seq in interleavings(streams):
                for mode in ("minimize", "maximize", "solve"):
                    ev += 1
                    ScriptQueue.script = seq
                    ms = mps.MultiprocessingSolver([Stub() for _ in range(n)])
                    case = dict(workers=n, solutions_per_worker=[list(v) for v in sols], arrival=[(m[0], None if m[1] is None else int(m[1][0])) for m in seq], mode=mode)
                    try:
                        if mode == "solve":
                            got = sorted(int(x[0]) for x in ms.solve())
                            if got != sorted(allv):
                                viol.append(dict(clause="C11.multiset", what=f"delivered {got}, sent {sorted(allv)}", **case))
                        else:
                            r = getattr(ms, mode)(0)
                            want = (min(allv) if mode == "minimize" else max(allv)) if allv else None
                            gotv = None if r is None else int(r[0])
                            if gotv != want:
                                viol.append(dict(clause="C11.optimum", what=f"returned {gotv}, the extremal message is {want}", **case))
                        for w in range(n):
                            if int(ms.statistics[w][0]) != 100 + w:
                                viol.append(dict(clause="C11.stats", what=f"statistics of worker {w} are not its final ones", **case))
                    except Hang:
                        viol.append(dict(clause="C11.returns", what="the reducer asked for more messages than were sent", **case))
                    if allv:
                        nontriv += 1
                    if len(viol) >= 20:
                        break
            if len(samples) < 3 and allv:
                samples.append(case)
    return dict(suite="faults:reducers", evaluations=ev, distinct_nontrivial=nontriv, violations=viol[:20], samples=samples,
                rule="every interleaving of the workers' well-formed streams, for solve / minimize / maximize; non-trivial = some worker sends a solution",
                scope="1-2 workers with 0-2 solutions each over values 0..2, 3 workers with a few streams")


def run(arg, pid, tier, seed):
    if arg == "reducers":
        return run_reducers(arg, pid, tier, seed)
    from nucs.solvers import multiprocessing_solver as mps
    viol, ev, nontriv, samples = [], 0, 0, []
    deaths = [None, 0, 1, 2, 3, 5]
    for n in (1, 2, 3):
        for done in itertools.product([False, True], repeat=n):
            for die in itertools.product(deaths, repeat=n):
                if sum(d is not None for d in die) > 2:
                    continue
                for msg_at in [None, 0, 1, 2, 4, 6]:
                    ev += 1
                    clock, local = Clock(), []
                    q = FakeQueue(clock, msg_at, local)
                    procs = [FakeProcess(clock, d) for d in die]
                    fault_at = min([d for d, dn in zip(die, done) if d is not None and not dn], default=None)
                    outcome = None
                    try:
                        m = mps.get_message(q, procs, list(done))
                        outcome = ("returned", clock.t)
                    except RuntimeError:
                        outcome = ("raised", clock.t)
                    except Hang:
                        outcome = ("hang", clock.t)
                    case = dict(workers=n, done=list(done), die_at=list(die), message_at=msg_at, outcome=list(outcome))
                    if fault_at is not None or msg_at is not None:
                        nontriv += 1
                    if outcome[0] == "hang":
                        if fault_at is not None:
                            local.append("an unfinished worker is dead and the queue stays empty, but the call keeps polling (60 polls): it would block forever")
                        elif msg_at is not None:
                            local.append("a message is available but is never returned")
                        # no fault and no message: waiting is the specified behaviour
                    elif outcome[0] == "raised":
                        if fault_at is None:
                            local.append("raised although every unfinished worker is alive")
                        elif msg_at is not None and msg_at < fault_at and not q.delivered:
                            local.append("raised although a message was available before the worker died")
                    else:
                        if msg_at is None:
                            local.append("returned a message that was never sent")
                    if outcome[0] != "hang" and fault_at is not None and (msg_at is None or msg_at > fault_at + SLACK + 2):
                        if outcome[1] > max(fault_at, 0) + SLACK + 2:
                            local.append(f"dead worker detected only after {outcome[1]} polls (death at {fault_at})")
                    for w in local:
                        viol.append(dict(clause="C18.dead_worker_detected", what=w, **case))
                    if len(samples) < 4 and fault_at is not None:
                        samples.append(case)
    return dict(suite="faults:" + arg, evaluations=ev, distinct_nontrivial=nontriv, violations=viol[:20], samples=samples,
                rule="the real get_message against scripted stand-ins for Queue and Process (deterministic clock: one tick per Queue.get); non-trivial = a worker dies or a message arrives",
                scope="1-3 workers, every done vector, up to two deaths at times {0,1,2,3,5}, message at {0,1,2,4,6} or never")
