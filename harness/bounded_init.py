"""Bounded stand-in for Problem.init / BacktrackSolver.__init__ (C08 trigger clause, C13 flattening and problem-object frame, C16 wf_static, C19 capacities)."""
import copy
import random

import numpy as np

from nucs.constants import *  # noqa
from nucs.problems.problem import Problem
from nucs.propagators.propagators import GET_TRIGGERS_FCTS, GET_COMPLEXITY_FCTS
from nucs.solvers.backtrack_solver import BacktrackSolver

from harness.bounded_engine import random_problem, build, ALGS


def run(arg, pid, tier, seed):
    rng = random.Random(seed * 104729 + 5)
    n = 300 if tier == "quick" else 3000
    ev = nontriv = 0
    viol, samples = [], []

    def report(clause, pb, detail):
        if len(viol) < 8:
            viol.append(dict(clause=clause, problem=pb, detail=detail))

    for _ in range(n):
        pb = random_problem(rng)
        p = build(pb)
        before = (copy.deepcopy(p.shr_domains_lst), list(p.dom_indices_lst), list(p.dom_offsets_lst), sorted(map(repr, p.propagators)))
        ev += 1
        try:
            p.init()
        except Exception as e:  # noqa
            report(f"{pid}.exception", pb, f"init: {type(e).__name__}: {e}")
            continue
        after = (p.shr_domains_lst, list(p.dom_indices_lst), list(p.dom_offsets_lst), sorted(map(repr, p.propagators)))
        if len(pb["cons"]) > 1 or len(pb["idx"]) > len(pb["doms"]):
            nontriv += 1
        if len(samples) < 2:
            samples.append(dict(problem=pb, var_bounds=p.var_bounds.tolist(), triggers=p.triggers.tolist()))
        if pid in ("C13", "C16", "C08", "C19"):
            if before != after:
                report("C13.frame", pb, "init changed the declared domains / indices / offsets / the multiset of propagators")
            P = len(p.propagators)
            D = len(p.shr_domains_lst)
            vb, pbnd = p.var_bounds, p.param_bounds
            ok = P == p.propagator_nb and len(p.algorithms) == P
            pos = 0
            ppos = 0
            for k, (vs, alg, params) in enumerate(p.propagators):
                ok = ok and int(vb[k, 0]) == pos and int(vb[k, 1]) == pos + len(vs) and int(pbnd[k, 0]) == ppos and int(pbnd[k, 1]) == ppos + len(params)
                ok = ok and int(p.algorithms[k]) == alg
                ok = ok and [int(x) for x in p.props_dom_indices[pos:pos + len(vs)]] == [p.dom_indices_lst[v] for v in vs]
                ok = ok and [int(x) for x in p.props_dom_offsets[pos:pos + len(vs), 0]] == [p.dom_offsets_lst[v] for v in vs]
                ok = ok and [int(x) for x in p.props_parameters[ppos:ppos + len(params)]] == list(params)
                pos += len(vs)
                ppos += len(params)
            if not ok or p.props_dom_offsets.shape != (pos, 1) or any(int(x) >= D for x in p.props_dom_indices):
                report("C16.wf_static", pb, "flattened arrays do not describe the posted propagators")
            for k, (vs, alg, params) in enumerate(p.propagators):
                masks = GET_TRIGGERS_FCTS[alg](len(vs), params)
                for j, v in enumerate(vs):
                    d = p.dom_indices_lst[v]
                    if int(p.triggers[d, k]) & int(masks[j]) != int(masks[j]):
                        report("C08.triggers", pb, f"trigger mask of shared domain {d} for propagator {k} is {int(p.triggers[d, k])}, position {j} needs {int(masks[j])}")
            snapshot = (p.var_bounds.tolist(), p.triggers.tolist(), p.props_dom_indices.tolist(), [repr(x) for x in p.propagators])
            p.init()
            if snapshot != (p.var_bounds.tolist(), p.triggers.tolist(), p.props_dom_indices.tolist(), [repr(x) for x in p.propagators]):
                report("C13.init_idempotent", pb, "a second init() changes the derived arrays")
    if pid == "C19":
        for h in (0, 257, 300, 512):
            ev += 1
            try:
                BacktrackSolver(Problem([(0, 1)] * 3), stack_max_height=h, log_level="ERROR")
                report("C19.height_refused", dict(height=h), f"stack_max_height={h} accepted although the top index is stored on 8 bits")
            except ValueError:
                nontriv += 1
            except Exception as e:  # noqa
                report("C19.height_refused", dict(height=h), f"{type(e).__name__}")
        for nvars, h, dh in ((6, 4, 0), (40, 16, 0), (300, 256, 0), (12, 6, 3), (300, 255, 3)):
            ev += 1
            p = Problem([(0, 2)] * nvars)
            try:
                s = BacktrackSolver(p, stack_max_height=h, dom_heuristic_idx=dh, log_level="ERROR")
                x = next(iter(s.solve()))
                report("C19.overflow_reported", dict(nvars=nvars, height=h), f"a search needing more than {h} choice points returned {list(map(int, x[:4]))}... instead of raising")
            except IndexError as e:
                if "stack" in str(e):
                    nontriv += 1
                else:
                    report("C19.overflow_reported", dict(nvars=nvars, height=h), f"raw IndexError: {e}")
            except Exception as e:  # noqa
                report("C19.overflow_reported", dict(nvars=nvars, height=h), f"{type(e).__name__}: {e}")
        # index types: more shared domains / variables than the 16-bit index arrays can address must be refused (or handled correctly), never wrapped
        for nd in (65536, 65537, 65540):
            ev += 1
            try:
                p = Problem([(0, 1)] + [(0, 0)] * (nd - 2) + [(5, 6)])
                p.add_propagator(([nd - 1, 0], ALGS["affine_eq"], [1, -1, 5]))
                s = BacktrackSolver(p, decision_domains=[0], log_level="ERROR")
                got = sorted((int(x[0]), int(x[nd - 1])) for x in s.solve())
                if got != [(0, 5), (1, 6)]:
                    report("C19.index_capacity", dict(shared_domains=nd), f"{nd} shared domains accepted and solved wrongly: (x0, x_last) = {got[:4]} instead of [(0, 5), (1, 6)]")
                else:
                    nontriv += 1
            except (OverflowError, ValueError, IndexError, MemoryError):
                nontriv += 1
            except Exception as e:  # noqa
                report("C19.index_capacity", dict(shared_domains=nd), f"{type(e).__name__}: {e}")
    return dict(suite="init:" + arg, evaluations=ev, distinct_nontrivial=nontriv, violations=viol, samples=samples,
                rule="random small problems (see engine:small) through Problem.init; capacity scenarios for C19; non-trivial = several constraints or aliased variables / a refused or reported capacity",
                scope=f"{n} problems")
