"""Child process (run with /venv/bin/python, NUMBA_DISABLE_JIT=1): executes real functions of the repo on JSON inputs.
request (stdin): {"repo": "/repo", "calls": [{"func": "nucs/x/y.py::name", "args": [...], "timeout": 2.0}]}
arg encodings: int | bool | null | {"array": nested list, "dtype": "int32"} | {"list": [...]}
response (stdout): [{"result": ..., "args": [...after the call...], "error": null | "IndexError: ...", "timeout": false}]"""
import importlib
import json
import os
import signal
import sys

os.environ.setdefault("NUMBA_DISABLE_JIT", "1")
import numpy as np  # noqa


class _Timeout(Exception):
    pass


def _alarm(*_a):
    raise _Timeout()


def dec(a):
    if isinstance(a, dict):
        if "array" in a:
            return np.array(a["array"], dtype=getattr(np, a.get("dtype", "int32"))).reshape(a["shape"]) if "shape" in a else np.array(a["array"], dtype=getattr(np, a.get("dtype", "int32")))
        if "list" in a:
            return list(a["list"])
    return a


def enc(v):
    if isinstance(v, np.ndarray):
        return {"array": v.tolist(), "dtype": str(v.dtype), "shape": list(v.shape)}
    if isinstance(v, (np.integer,)):
        return int(v)
    if isinstance(v, (np.bool_,)):
        return bool(v)
    if isinstance(v, (list, tuple)):
        return [enc(x) for x in v]
    if v is None or isinstance(v, (int, bool, str, float)):
        return v
    return repr(v)


def main():
    req = json.load(sys.stdin)
    sys.path.insert(0, req.get("repo", "/repo"))
    out = []
    signal.signal(signal.SIGALRM, _alarm)
    for c in req["calls"]:
        modpath, name = c["func"].split("::")
        mod = importlib.import_module(modpath[:-3].replace("/", "."))
        f = mod
        for part in name.split("."):
            f = getattr(f, part)
        args = [dec(a) for a in c["args"]]
        r = {"result": None, "args": None, "error": None, "timeout": False}
        signal.setitimer(signal.ITIMER_REAL, c.get("timeout", 2.0))
        try:
            res = f(*args)
            r["result"] = enc(res)
        except _Timeout:
            r["timeout"] = True
        except Exception as e:  # noqa
            r["error"] = f"{type(e).__name__}: {e}"
        finally:
            signal.setitimer(signal.ITIMER_REAL, 0)
        r["args"] = [enc(a) for a in args]
        out.append(r)
    json.dump(out, sys.stdout)


if __name__ == "__main__":
    main()
