"""Bounded stand-ins (run under /venv/bin/python with NUMBA_DISABLE_JIT=1): run-time checks of the contract clauses on the REAL
functions over exhaustively enumerated small scopes. Never counted as proved.
usage: bounded.py <suite> <property> <tier> <seed>   -> one JSON line on stdout"""
import itertools
import json
import os
import random
import signal
import sys
import time

os.environ.setdefault("NUMBA_DISABLE_JIT", "1")
HERE = os.path.dirname(os.path.abspath(__file__))
sys.path.insert(0, os.path.dirname(HERE))
REPO = os.environ.get("NUCS_REPO", "/repo")
sys.path.insert(0, REPO)

import numpy as np  # noqa

from spec.relations_py import RELATIONS, EXACT, ENTAILING  # noqa


from harness.watchdog import Timeout, guarded  # wall-clock trigger + deterministic confirmation (load-independent verdicts)


CLAUSE_PROPS = {"P1": ["C05", "C08"], "P2": ["C05", "C14"], "P3": ["C06", "C01"], "P4": ["C07"], "P5": ["C14"], "P6": ["C14"], "P8": ["C16"], "P9": ["C04"]}


# ---------------------------------------------------------------------------------------------- propagators
def boxes(n, lo, hi):
    ivs = [(a, b) for a in range(lo, hi + 1) for b in range(a, hi + 1)]
    return itertools.product(ivs, repeat=n)


def prop_scopes(name, tier):
    """yield (n, parameter vector, value range)"""
    big = tier == "thorough"
    if name == "alldifferent":
        for n in ((1, 2, 3, 4) if big else (1, 2, 3)):
            yield n, [], (-1, 3 if big else 2)
    elif name == "gcc":
        for n in ((1, 2, 3) if big else (1, 2)):
            for m in (1, 2, 3) if big else (1, 2):
                for caps in itertools.product(range(0, 3), repeat=2 * m):
                    l, u = caps[:m], caps[m:]
                    if all(a <= b for a, b in zip(l, u)):
                        yield n, [0] + list(l) + list(u), (0, m - 1)
    elif name == "scc":
        for n in ((2, 3, 4) if big else (2, 3)):
            yield n, [], (0, n - 1)
    elif name == "no_sub_cycle":
        for n in ((3, 4, 5) if big else (3, 4)):  # n = 2: the identity (two fixpoints) is accepted; noted in DESIGN.md, the circuit model adds scc
            yield n, [], (0, n - 1)
    elif name == "relation":
        vals = (0, 1, 2)
        for n in (1, 2):
            tuples = list(itertools.product(vals, repeat=n))
            for k in (1, 2, 3) if big else (1, 2):
                for sel in itertools.combinations_with_replacement(tuples, k):
                    yield n, [x for t in sel for x in t], (0, 2)
    elif name == "lexicographic_leq":
        for p in ((1, 2, 3) if big else (1, 2)):
            yield 2 * p, [], (0, 2 if p < 3 else 1)
        yield 6, [], (0, 1)
        yield 8, [], (0, 1)  # the automaton's look-ahead states need vectors of length >= 4
    elif name in ("affine_eq", "affine_geq", "affine_leq"):
        for n in (1, 2, 3) if big else (1, 2):
            for coefs in itertools.product((-2, -1, 0, 1, 2), repeat=n):
                for c in range(-3, 4):
                    yield n, list(coefs) + [c], (-1, 2)
    elif name in ("max_eq", "max_leq", "min_eq", "min_geq"):
        for n in (2, 3, 4) if big else (2, 3):
            yield n, [], (-1, 2)
    elif name == "and":
        for n in (2, 3, 4):
            yield n, [], (0, 1)
    elif name == "exactly_true":
        for n in (1, 2, 3, 4):
            for c in range(0, n + 1):
                yield n, [c], (0, 1)
    elif name == "exactly_eq":
        for n in (1, 2, 3):
            for c in range(0, n + 1):
                yield n, [1, c], (0, 2)
    elif name == "count_eq":
        for n in (2, 3):
            yield n, [1], (0, 2)
    elif name == "element_iv":
        for l in itertools.product((0, 1, 2), repeat=3):
            yield 2, list(l), (-1, 3)
    elif name == "element_lic":
        for n in ((2, 3, 4, 5) if big else (2, 3, 4)):  # lists of length >= 3: the index bound may have to move by more than one position
            yield n, [1], ((-1, 2) if n < 5 else (0, 2))
    elif name == "element_liv":
        for n in (3, 4):
            yield n, [], (-1, 2)
    elif name == "dummy":
        yield 2, [], (0, 1)


def suite_prop(name, pid, tier, seed):
    import importlib
    mod = importlib.import_module(f"nucs.propagators.{name}_propagator")
    f = getattr(mod, f"compute_domains_{name}")
    rel = RELATIONS[name]
    ev = nontriv = 0
    viol = []
    samples = []
    t_end = time.time() + (120 if tier == "quick" else 1500)

    def report(clause, n, params, box, out, status, detail):
        if pid in CLAUSE_PROPS.get(clause, []) and len(viol) < 400:
            viol.append(dict(clause=clause, function=f"compute_domains_{name}", n=n, parameters=params, box=(box if isinstance(box, str) else [list(b) for b in box]), out=out, status=status, detail=detail))

    for n, params, (lo, hi) in prop_scopes(name, tier):
        p_arr = np.array(params, dtype=np.int32)
        for box in boxes(n, lo, hi):
            if time.time() > t_end:
                break
            d = np.array(box, dtype=np.int32).reshape(n, 2)
            d_in = d.copy()
            ev += 1

            def call_once(d=d, d_in=d_in):
                d[:] = d_in  # re-runnable: the confirmation run of the watchdog starts from the input box again
                return f(d, p_arr)

            try:
                status = int(guarded(call_once, 0.5))
            except Timeout:
                report("P9", n, params, box, None, None, "no termination within 0.5s")
                continue
            except Exception as e:  # noqa
                report("P8", n, params, box, None, None, f"{type(e).__name__}: {e}")
                continue
            out = d.tolist()
            sols = [t for t in itertools.product(*[range(a, b + 1) for a, b in box]) if rel(t, params)]
            changed = out != [list(b) for b in box]
            if changed or status != 1:
                nontriv += 1
            if len(samples) < 3 and changed:
                samples.append(dict(n=n, parameters=params, box=[list(b) for b in box], status=status, out=out))
            if status == 0:
                if sols:
                    report("P2", n, params, box, out, status, f"inconsistency reported although {sols[0]} satisfies the relation")
                continue
            if any(not (b[0] <= o[0] <= o[1] <= b[1]) for b, o in zip(box, out)):
                report("P1", n, params, box, out, status, "output box is not a non-empty sub-box of the input")
                continue
            lost = [t for t in sols if any(not (o[0] <= x <= o[1]) for x, o in zip(t, out))]
            if lost:
                report("P2", n, params, box, out, status, f"supported tuple {lost[0]} removed")
            pt = tuple(o[0] for o in out)
            decisive = name not in ("no_sub_cycle", "scc") or sorted(pt) == list(range(n))  # documented as decisive on permutations only
            if all(o[0] == o[1] for o in out) and decisive and not rel(pt, params):
                report("P3", n, params, box, out, status, "ground tuple violating the relation accepted")
            if status == 2:
                bad = [t for t in itertools.product(*[range(a, b + 1) for a, b in out]) if not rel(t, params)]
                if bad:
                    report("P4", n, params, box, out, status, f"entailed although {bad[0]} violates")
            if name in EXACT:
                if not sols:
                    report("P5", n, params, box, out, status, "no tuple satisfies the relation but no inconsistency reported")
                else:
                    hull = [[min(t[k] for t in sols), max(t[k] for t in sols)] for k in range(n)]
                    if hull != out:
                        report("P5", n, params, box, out, status, f"bounds hull is {hull}")
                    else:
                        d2 = d.copy()
                        d2_in = d.copy()

                        def call_again(d2=d2, d2_in=d2_in):
                            d2[:] = d2_in
                            return f(d2, p_arr)

                        try:
                            s2 = int(guarded(call_again, 0.5))
                            if s2 == 0 or d2.tolist() != out:
                                report("P6", n, params, box, out, status, f"second call gives status {s2}, {d2.tolist()}")
                        except Exception as e:  # noqa
                            report("P6", n, params, box, out, status, f"second call: {type(e).__name__}")
    # ---- cases beyond the exhaustive scope that need something specific: index-typed scratch arrays (8/16 bit) and long cycles
    if name in ("alldifferent", "gcc", "no_sub_cycle", "scc") and time.time() < t_end:
        rng = random.Random(seed)
        cases = []
        if name == "alldifferent":
            for n in (100, 130, 200, 300):
                perm = list(range(0, 2 * n, 2))
                rng.shuffle(perm)
                cases.append((n, [], [(v, v) for v in perm], 1))  # ground, pairwise different: consistent
                cases.append((n, [], [(v, v + 1) for v in perm], 1))  # feasible (take the lower value)
                cases.append((n, [], [(0, n - 2)] * n, 0))  # pigeonhole: inconsistent
        elif name == "gcc":
            for n in (100, 130, 200):
                cases.append((n, [0] + [0] * n + [1] * n, [(i, i) for i in range(n)], 1))
                cases.append((n, [0] + [0] * n + [1] * n, [(0, n - 1)] * n, 1))
        else:
            for n in (5, 6, 7, 8, 9):
                perms = list(itertools.permutations(range(n))) if n <= 6 else [tuple(rng.sample(range(n), n)) for _ in range(3000 if tier == "quick" else 20000)]
                if n == 8:  # two 4-cycles visited out of index order, and friends
                    perms += [(2, 0, 3, 1, 6, 4, 7, 5), (1, 2, 3, 0, 5, 6, 7, 4), (3, 0, 1, 2, 7, 4, 5, 6), (2, 3, 1, 0, 6, 7, 5, 4)]
                for pm in perms:
                    cases.append((n, [], [(v, v) for v in pm], None))
        for n, params, box, expect in cases:
            if time.time() > t_end:
                break
            d = np.array(box, dtype=np.int32).reshape(n, 2)
            d_in = d.copy()
            ev += 1

            def call_case(d=d, d_in=d_in, params=params):
                d[:] = d_in
                return f(d, np.array(params, dtype=np.int32))

            try:
                status = int(guarded(call_case, 5.0))
            except Timeout:
                report("P9", n, params, box if n < 12 else "large", None, None, "no termination within 5s")
                continue
            except Exception as e:  # noqa
                report("P8", n, params, box if n < 12 else "large", None, None, f"{type(e).__name__}: {e}")
                report("P2", n, params, box if n < 12 else "large", None, None, f"{type(e).__name__}: {e}")
                continue
            nontriv += 1
            if expect is None:
                pt = tuple(a for a, _b in box)
                sat = rel(pt, params)
                if status != 0 and not sat:
                    report("P3", n, params, [list(b) for b in box], d.tolist(), status, "ground permutation with a sub-cycle accepted")
                if status == 0 and sat:
                    report("P2", n, params, [list(b) for b in box], d.tolist(), status, "ground circuit rejected")
            elif expect == 1 and status == 0:
                report("P2", n, params, "large box (see scope)", None, status, f"arity {n}: inconsistency reported although a solution exists (index-typed scratch array?)")
            elif expect == 0 and status != 0 and name in EXACT:
                report("P5", n, params, "large box (see scope)", None, status, f"arity {n}: pigeonhole box accepted")
    return dict(suite=f"prop:{name}", evaluations=ev, distinct_nontrivial=nontriv, violations=viol, samples=samples,
                rule="every box of intervals over the value range for each (arity, parameter vector) of the scope; non-trivial = the call changed a domain, failed or entailed",
                scope=f"tier {tier}: see prop_scopes('{name}')")


# ---------------------------------------------------------------------------------------------- dispatch
def main():
    suite, pid, tier, seed = sys.argv[1], sys.argv[2], sys.argv[3], int(sys.argv[4])
    random.seed(seed)
    kind, _, arg = suite.partition(":")
    if kind == "prop":
        r = suite_prop(arg, pid, tier, seed)
    else:
        import importlib
        mod = importlib.import_module("harness.bounded_" + kind)
        r = mod.run(arg, pid, tier, seed)
    print(json.dumps(r, default=str))


if __name__ == "__main__":
    main()
