"""child (/venv/bin/python): builds a shipped model with the REAL constructor and dumps its declarative content as JSON."""
import json
import os
import sys

os.environ.setdefault("NUMBA_DISABLE_JIT", "1")
sys.path.insert(0, os.environ.get("NUCS_REPO", "/repo"))


def main():
    req = json.load(sys.stdin)
    out = []
    import importlib
    for r in req:
        mod = importlib.import_module(r["module"])
        p = getattr(mod, r["cls"])(*r["args"])
        import nucs.propagators.propagators as P
        names = {v: k[4:].lower() for k, v in vars(P).items() if k.startswith("ALG_")}
        out.append(dict(request=r, shr_domains=[[int(a), int(b)] for a, b in p.shr_domains_lst], dom_indices=[int(x) for x in p.dom_indices_lst],
                        dom_offsets=[int(x) for x in p.dom_offsets_lst],
                        propagators=[dict(vars=[int(v) for v in vs], alg=names[int(alg)], params=[int(x) for x in params]) for vs, alg, params in p.propagators]))
    json.dump(out, sys.stdout)


main()
