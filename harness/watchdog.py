"""Termination watchdog for the bounded suites. A wall-clock limit alone makes the verdict depend on machine load (a false
'no termination' was observed once with ~30 busy processes), so a wall-clock timeout is only a trigger: the call is then
repeated from scratch under a deterministic budget of executed source lines (sys.settrace). Only exceeding that budget is
reported as non-termination. The callable must therefore build its own fresh inputs."""
import signal
import sys


class Timeout(Exception):
    pass


def _alarm(*_a):
    raise Timeout()


signal.signal(signal.SIGALRM, _alarm)


def _wall(f, secs):
    signal.setitimer(signal.ITIMER_REAL, secs)
    try:
        return f()
    finally:
        signal.setitimer(signal.ITIMER_REAL, 0)


def _steps(f, steps):
    n = [0]

    def tracer(frame, event, arg):
        if event == "line":
            n[0] += 1
            if n[0] > steps:
                raise Timeout()
        return tracer

    old = sys.gettrace()
    sys.settrace(tracer)
    try:
        return f()
    finally:
        sys.settrace(old)


def guarded(f, secs=1.0, steps=None):
    """f(): re-runnable from scratch. steps: budget of executed lines for the confirmation run (default: 2M per second of wall budget, at least 2M)."""
    try:
        return _wall(f, secs)
    except Timeout:
        pass
    budget = steps or max(2_000_000, int(2_000_000 * secs))
    return _steps(f, budget)
